#!/bin/sh
# Offline setup: nothing to download or prebuild (drivers are compiled by each check against a fresh
# build of /repo's working tree).  Verifies that the tools the checks rely on are present.
set -e
for t in java cc clang make rsync python3 perl valgrind objdump ar localedef apalache-mc; do command -v $t >/dev/null || { echo "missing tool: $t"; exit 1; }; done
test -f /opt/veriftools/tla/tla2tools.jar
mkdir -p /verif/evidence /verif/replays
echo "setup ok"
