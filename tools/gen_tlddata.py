#!/usr/bin/env python3
"""punycode.csv (of the tree under test) -> TldData.tla.  The only interpretation made here is
CSV syntax; the classification rule itself (ClassOfRow) is written in spec/Tld.tla."""
import csv, re, sys
TYPES = {"country-code": 2, "generic": 3, "generic-restricted": 4, "infrastructure": 5, "sponsored": 6, "test": 7}

def rows(path):
    out = []
    with open(path, newline="", encoding="utf-8") as f:
        rd = csv.reader(f)
        next(rd)
        for r in rd:
            if not r:
                continue
            kind = 1 if re.match(r"not assigned", r[2], re.I) else 2 if re.match(r"retired", r[2], re.I) else 0
            out.append((r[0], TYPES.get(r[1], 0), kind))
    return out

def main(csvp, outp, rawp=None):
    rs = rows(csvp)
    us = []
    if rawp:
        try:
            us = [r[0] for r in rows(rawp)]
        except Exception:
            us = []
    if len(us) != len(rs):
        us = [r[0] for r in rs]
    with open(outp, "w") as f:
        f.write("------------------------------ MODULE TldData ------------------------------\n")
        f.write("\\* GENERATED from %s: %d rows\n" % (csvp, len(rs)))
        f.write("TldRows == <<\n")
        f.write(",\n".join("  << <<%s>>, %d, %d >>" % (",".join(str(b) for b in d.encode("utf-8")), t, k) for d, t, k in rs))
        f.write("\n>>\n\\* U-label spelling of each row (data/raw.csv, same order); equals the A-label for ASCII TLDs\n")
        f.write("TldU == <<\n")
        f.write(",\n".join("  <<%s>>" % ",".join(str(b) for b in u.encode("utf-8")) for u in us))
        f.write("\n>>\n=============================================================================\n")
    return len(rs)

if __name__ == "__main__":
    print(main(sys.argv[1], sys.argv[2], sys.argv[3] if len(sys.argv) > 3 else None))
