#!/usr/bin/env python3
"""Common machinery of the /verif checks: scratch area, builds of /repo's working
tree, TLC runs, replay of TLC vectors into the real code, trace validation,
evidence files, known findings, VIOLATION reporting."""
import atexit, json, os, random, re, shutil, subprocess, sys, tempfile, time

VERIF = os.path.dirname(os.path.dirname(os.path.abspath(__file__)))
REPO = os.environ.get("VERIF_REPO", "/repo")
JAR = "/opt/veriftools/tla/tla2tools.jar:/opt/veriftools/tla/CommunityModules-deps.jar"
NCPU = min(16, os.cpu_count() or 4)


class Infra(Exception):
    """the machinery itself failed (tool error, model inconsistency): exit 2, never a VIOLATION"""


class Ctx:
    def __init__(self, prop, tier, seed):
        self.prop, self.tier, self.seed = prop, tier, seed
        self.t0 = time.time()
        self.rng = random.Random(seed)
        self.scratch = tempfile.mkdtemp(prefix="verif-%s-" % prop, dir=os.environ.get("VERIF_TMP", "/tmp"))
        atexit.register(self.cleanup)
        self.builds = {}
        self.violations = []       # dicts: {property, what, case...}
        self.known_hits = {}       # finding id -> count
        self.cov = {"evaluations": 0, "distinct_nontrivial": 0, "states": 0, "transitions": 0,
                    "traces_validated_against_impl": 0, "samples": [], "tlc_runs": [], "replays": [],
                    "drift": 0, "trace_events": 0}
        self.assumptions = []
        self.specdir = None
        self.n_tlc = 0

    def cleanup(self):
        if os.environ.get("VERIF_KEEP"):
            sys.stderr.write("scratch kept: %s\n" % self.scratch)
            return
        shutil.rmtree(self.scratch, ignore_errors=True)

    def quick(self):
        return self.tier == "quick"

    def path(self, *a):
        p = os.path.join(self.scratch, *a)
        os.makedirs(os.path.dirname(p), exist_ok=True)
        return p

    def log(self, msg):
        sys.stderr.write("[%s %6.1fs] %s\n" % (self.prop, time.time() - self.t0, msg))
        sys.stderr.flush()


# --------------------------------------------------------------------------
# builds

VARIANTS = {
    # name: (make args, extra CFLAGS, CC, link flags)
    "default": ([], "", "cc", ""),
    "asan": ([], "-O1 -g -fsanitize=address,undefined -fno-sanitize-recover=all -fno-omit-frame-pointer",
             "clang", "-fsanitize=address,undefined"),
    "tsan": ([], "-O1 -g -fsanitize=thread", "clang", "-fsanitize=thread"),
    "tsan-extra": ([], "-O1 -g -fsanitize=thread -DEAV_EXTRA", "clang", "-fsanitize=thread"),
    "extra": ([], "-O2 -DEAV_EXTRA", "cc", ""),
    "debug": ([], "-O0 -g", "cc", ""),
    "uchar": ([], "-O2 -funsigned-char", "cc", ""),      # plain char unsigned, as on ARM / PowerPC
    "ndebug": ([], "-O2 -DNDEBUG", "cc", ""),            # assert() compiled out, as in a release build
    "extra-ndebug": ([], "-O2 -DEAV_EXTRA -DNDEBUG", "cc", ""),
    "mkdebug": (["debug"], None, "cc", ""),              # the Makefile's own `make debug` (CFLAGS += -g -D_DEBUG)
}


def optname(ob):
    return "opt%d" % ob


def build(ctx, variant="default", optbits=0, backend="idn2", targets=("static",), opts_via_env=False):
    """copy /repo's working tree to scratch and build it with the repository's own Makefile (opts_via_env: the documented options
    are exported in the environment instead of being given on the make command line - the README allows both)"""
    key = (variant, optbits, backend, targets, opts_via_env)
    if key in ctx.builds:
        return ctx.builds[key]
    name = "b-%s-%d-%s%s" % (variant, optbits, backend, "-env" if opts_via_env else "")
    dst = ctx.path(name, "src")
    os.makedirs(dst, exist_ok=True)
    subprocess.run(["rsync", "-a", "--delete", "--exclude", ".git", "--exclude", "*.o", "--exclude", "*.a",
                    "--exclude", "*.so", "--exclude", "*.bin", "--exclude", "bin/eav", "--exclude", "*.gcda",
                    "--exclude", "*.gcno", REPO + "/", dst + "/"], check=True)
    margs, cflags, cc, ldflags = VARIANTS[variant]
    base_cflags = "-O2 -Wall -Wextra -std=c99 -pedantic"
    if cflags:
        base_cflags = cflags + " -Wall -Wextra -std=c99 -pedantic"
    if cflags is None:      # the Makefile's own flags and target
        args = ["make", "-C", dst, "-j8"] + margs + ["CC=" + cc]
        base_cflags = "-O2 -g -D_DEBUG -std=c99"
    else:
        args = ["make", "-C", dst, "-j8"] + list(targets) + ["CC=" + cc, "CFLAGS=" + base_cflags]
    if ldflags:
        args.append("LDFLAGS=" + ldflags)
    menv = dict(os.environ)
    for bit, oname in ((1, "RFC6531_FOLLOW_RFC20"), (2, "RFC6531_FOLLOW_RFC5322"), (4, "LABELS_ALLOW_UNDERSCORE")):
        if optbits & bit:
            if opts_via_env:
                menv[oname] = "ON"
            else:
                args.append(oname + "=ON")
    libs = ["-lidn2"]
    extra_inc = []
    if backend != "idn2":
        adir = os.path.join(VERIF, "harness", "adapters", backend)
        define = "-DHAVE_LIBIDN" if backend == "idn" else "-DHAVE_IDNKIT"
        args += ["FORCE_IDN=" + backend, "DEFS=%s -I%s" % (define, adir), "LIBS=", "LIBS_STATIC="]
        extra_inc = [define, "-I" + adir]
    r = subprocess.run(args, stdout=subprocess.PIPE, stderr=subprocess.STDOUT, text=True, env=menv)
    if r.returncode != 0:
        raise Infra("build of /repo working tree failed (%s):\n%s" % (name, r.stdout[-3000:]))
    b = {"name": name, "dir": dst, "lib": os.path.join(dst, "libeav.a"), "cc": cc, "cflags": base_cflags,
         "ldflags": ldflags, "libs": libs, "inc": extra_inc, "variant": variant, "optbits": optbits,
         "backend": backend, "make_log": r.stdout}
    ctx.builds[key] = b
    return b


WRAP_FLAGS = ["-Wl,--wrap=malloc,--wrap=free,--wrap=strndup,--wrap=idn2_to_ascii_8z"]


def compile_driver(ctx, b, src, extra=(), link_extra=(), name=None, wrap=False):
    if wrap:
        extra = list(extra) + ["-DVERIF_WRAP"]
        link_extra = [os.path.join(VERIF, "harness", "wrap.c")] + WRAP_FLAGS + list(link_extra)
        name = (name or os.path.splitext(os.path.basename(src))[0]) + "-wrap"
    out = os.path.join(os.path.dirname(b["dir"]), name or os.path.splitext(os.path.basename(src))[0])
    if os.path.exists(out):
        return out
    cflags = b["cflags"].replace("-std=c99", "-std=gnu99").replace("-pedantic", "")
    cmd = [b["cc"]] + cflags.split() + ["-Wno-unused-function", "-I", os.path.join(b["dir"], "include"),
           "-I", os.path.join(VERIF, "harness")] + b["inc"] + list(extra) + \
          ["-o", out, os.path.join(VERIF, "harness", src), b["lib"]] + list(link_extra) + \
          ([os.path.join(VERIF, "harness", "adapters", "adapter.c")] if b["backend"] != "idn2" else []) + b["libs"] + \
          (b["ldflags"].split() if b["ldflags"] else []) + ["-lpthread"]
    r = subprocess.run(cmd, stdout=subprocess.PIPE, stderr=subprocess.STDOUT, text=True)
    if r.returncode != 0:
        raise Infra("driver compile failed: %s\n%s" % (" ".join(cmd), r.stdout[-3000:]))
    return out


# --------------------------------------------------------------------------
# TLC

def spec_dir(ctx):
    if ctx.specdir is None:
        ctx.specdir = ctx.path("spec", "x")[:-2]
        for f in os.listdir(os.path.join(VERIF, "spec")):
            if f.endswith(".tla") or f.endswith(".cfg"):
                shutil.copy(os.path.join(VERIF, "spec", f), ctx.specdir)
        # TldData is always generated from the tree under test (the CSV is the specification of the table)
        import gen_tlddata
        ctx.tld_rows = gen_tlddata.main(os.path.join(REPO, "data", "punycode.csv"),
                                        os.path.join(ctx.specdir, "TldData.tla"),
                                        os.path.join(REPO, "data", "raw.csv"))
    return ctx.specdir


def tlc(ctx, module, cfg, out=None, workers=NCPU, env=None, heap="6g", simulate=None, timeout=3000,
        coverage=False):
    """run TLC on spec/<module>.tla with the given cfg text; returns dict(out, generated, distinct, rc)"""
    sd = spec_dir(ctx)
    ctx.n_tlc += 1
    tag = "%s-%d" % (module, ctx.n_tlc)
    cfgp = os.path.join(sd, tag + ".cfg")
    with open(cfgp, "w") as f:
        f.write(cfg)
    out = out or ctx.path("tlc", tag + ".out")
    jtmp = ctx.path("tlc", "jtmp", "x")[:-2]          # TLC unpacks its standard modules into java.io.tmpdir: keep that inside the
    os.makedirs(jtmp, exist_ok=True)                  # check's scratch directory, which is removed at exit
    cmd = ["java", "-XX:+UseParallelGC", "-Djava.io.tmpdir=" + jtmp, "-Xmx" + heap, "-Xss16m", "-cp", JAR, "tlc2.TLC", "-workers", str(workers),
           "-metadir", ctx.path("tlc", tag + ".md", "x")[:-2], "-noGenerateSpecTE", "-config", cfgp]
    if simulate:
        cmd += ["-simulate", simulate]
    if coverage:
        cmd += ["-coverage", "1"]
    cmd.append(module + ".tla")
    e = dict(os.environ)
    if env:
        e.update(env)
    t = time.time()
    with open(out, "w") as fo:
        try:
            r = subprocess.run(cmd, cwd=sd, stdout=fo, stderr=subprocess.STDOUT, env=e, timeout=timeout)
            rc = r.returncode
        except subprocess.TimeoutExpired:
            rc = -9
    gen = dist = 0
    tail = []
    with open(out, errors="replace") as fi:
        for line in fi:
            if line.startswith('"['):
                continue
            tail.append(line)
            if len(tail) > 400:
                tail.pop(0)
            m = re.match(r"(\d+) states generated, (\d+) distinct states found", line)
            if m:
                gen, dist = int(m.group(1)), int(m.group(2))
    shutil.rmtree(os.path.join(ctx.scratch, "tlc", tag + ".md"), ignore_errors=True)
    res = {"module": module, "out": out, "generated": gen, "distinct": dist, "rc": rc, "wall_s": round(time.time() - t, 1),
           "tail": "".join(tail)}
    ctx.cov["tlc_runs"].append({k: res[k] for k in ("module", "generated", "distinct", "rc", "wall_s")})
    return res


def tlc_ok(ctx, *a, **kw):
    """TLC run that must complete without error (the model itself must be consistent: M |= P)"""
    r = tlc(ctx, *a, **kw)
    if r["rc"] != 0:
        raise Infra("TLC run %s failed with exit %s (model-level error, not a verdict about the code):\n%s"
                    % (r["module"], r["rc"], r["tail"][-6000:]))
    ctx.cov["states"] += r["distinct"]
    ctx.cov["transitions"] += r["generated"]
    return r


def bad_lines(tlc_out):
    """event numbers that a trace spec flagged with PrintT(<<"BAD", l, ...>>)"""
    bad = []
    with open(tlc_out, errors="replace") as f:
        for line in f:
            m = re.match(r'<<"BAD", (\d+)(.*)>>', line)
            if m:
                bad.append((int(m.group(1)), m.group(2).strip(", ")))
    return bad


def validate_trace(ctx, module, trace, cfg=None, workers=NCPU, extra_env=None, expect_states=True):
    """direction B: TLC validates a recorded ndjson trace; returns (n_events, [(line_no, event, note)])"""
    n = sum(1 for _ in open(trace))
    if n == 0:
        return 0, []
    cfg = cfg or "INIT Init\nNEXT Next\nINVARIANT Ok\nCHECK_DEADLOCK FALSE\n"
    env = {"TRACE": trace}
    if extra_env:
        env.update(extra_env)
    r = tlc(ctx, module, cfg, workers=workers, env=env, heap="8g")
    if r["rc"] != 0:
        raise Infra("trace validation %s failed to run (exit %s):\n%s" % (module, r["rc"], r["tail"][-5000:]))
    if expect_states and r["distinct"] != n:
        raise Infra("trace validation %s examined %d of %d events" % (module, r["distinct"], n))
    ctx.cov["trace_events"] += n
    ctx.cov["states"] += r["distinct"]
    ctx.cov["transitions"] += r["generated"]
    ctx.cov["traces_validated_against_impl"] += 1
    bad = bad_lines(r["out"])
    res = []
    if bad:
        want = dict(bad)
        with open(trace) as f:
            for i, line in enumerate(f, 1):
                if i in want:
                    res.append((i, json.loads(line), want[i]))
    return n, res


# --------------------------------------------------------------------------
# replay (direction A)

def run_driver(ctx, exe, args, stdin_path=None, timeout=3000, env=None):
    e = dict(os.environ)
    e["ASAN_OPTIONS"] = "detect_leaks=1:abort_on_error=0:exitcode=97:allocator_may_return_null=1"
    e["UBSAN_OPTIONS"] = "print_stacktrace=1:halt_on_error=1:exitcode=98"
    e["TSAN_OPTIONS"] = "exitcode=96:halt_on_error=0"
    if env:
        e.update(env)
    fi = open(stdin_path) if stdin_path else subprocess.DEVNULL
    try:
        r = subprocess.run([exe] + args, stdin=fi, stdout=subprocess.PIPE, stderr=subprocess.PIPE, timeout=timeout,
                           env=e)
        return r.returncode, r.stdout.decode(errors="replace"), r.stderr.decode(errors="replace")
    except subprocess.TimeoutExpired as ex:
        return -9, "", "timeout after %ss" % timeout
    finally:
        if stdin_path:
            fi.close()


def latin1_locale(ctx):
    """a single-byte (ISO-8859-1 like) locale compiled with localedef into the scratch directory: the sandbox ships only C / C.utf8,
    and what <ctype.h> says about bytes >= 0x80 is part of the environment a library is called in.  Returns the environment for the
    driver (LOCPATH, VERIF_LOCALE); the driver switches to it with setlocale and verifies that isalnum(0xE9) holds."""
    if getattr(ctx, "locale_env", None):
        return ctx.locale_env
    d = ctx.path("locale", "x")[:-2]
    os.makedirs(d, exist_ok=True)
    u = lambda i: "<U%04X>" % i
    rng = lambda a, b, skip=(): ";".join(u(i) for i in range(a, b + 1) if i not in skip)
    prs = lambda a, b, dlt, skip=(): ";".join("(%s,%s)" % (u(i), u(i + dlt)) for i in range(a, b + 1) if i not in skip)
    with open(os.path.join(d, "VERIF-8859-1"), "w") as f:
        f.write("<code_set_name> VERIF-8859-1\n<comment_char> %\n<escape_char> /\n<mb_cur_min> 1\n<mb_cur_max> 1\nCHARMAP\n")
        for i in range(256):
            f.write("<U%04X> /x%02x\n" % (i, i))
        f.write("END CHARMAP\n")
    with open(os.path.join(d, "xx_XX.src"), "w") as f:
        f.write("comment_char %\nescape_char /\nLC_CTYPE\n")
        f.write("upper %s;%s\n" % (rng(65, 90), rng(192, 222, (215,))))
        f.write("lower %s;%s\n" % (rng(97, 122), rng(223, 255, (247,))))
        f.write("digit %s\n" % rng(48, 57))
        f.write("space <U0020>;%s\n" % rng(9, 13))
        f.write("cntrl %s;<U007F>;%s\n" % (rng(0, 31), rng(128, 159)))
        f.write("punct %s;%s;%s;%s;%s;<U00D7>;<U00F7>\n" % (rng(33, 47), rng(58, 64), rng(91, 96), rng(123, 126), rng(161, 191)))
        f.write("xdigit %s;%s;%s\n" % (rng(48, 57), rng(65, 70), rng(97, 102)))
        f.write("blank <U0020>;<U0009>\n")
        f.write("toupper %s;%s\n" % (prs(97, 122, -32), prs(224, 254, -32, (247,))))
        f.write("tolower %s;%s\n" % (prs(65, 90, 32), prs(192, 222, 32, (215,))))
        f.write("END LC_CTYPE\n")
    os.makedirs(os.path.join(d, "loc"), exist_ok=True)
    r = subprocess.run(["localedef", "-c", "-f", os.path.join(d, "VERIF-8859-1"), "-i", os.path.join(d, "xx_XX.src"), os.path.join(d, "loc", "xx_XX")],
                       stdout=subprocess.PIPE, stderr=subprocess.STDOUT, text=True)
    if not os.path.exists(os.path.join(d, "loc", "xx_XX", "LC_CTYPE")):
        raise Infra("localedef could not build the single-byte locale: " + r.stdout[-800:])
    ctx.locale_env = {"LOCPATH": os.path.join(d, "loc"), "VERIF_LOCALE": "xx_XX"}
    return ctx.locale_env


def replay(ctx, b, vectors_path, tag, stride=8, timeout=3000, wrap=False, valgrind=False, env=None, stack_kb=0):
    """feed TLC's vector lines to the replay driver linked with build b; returns dict(summary, viol, drift_path, crash)"""
    exe = compile_driver(ctx, b, "replay.c", wrap=wrap)
    od = ctx.path("replay", "%s-%s%s%s" % (tag, b["name"], "-wrap" if wrap else "", "-vg" if valgrind else ""), "x")[:-2]
    if valgrind:
        vg = ["valgrind", "-q", "--error-exitcode=95", "--leak-check=full", "--errors-for-leak-kinds=definite,indirect",
              "--undef-value-errors=yes", "--track-origins=no", exe, od, "0"]
        rc, so, se = run_driver(ctx, vg[0], vg[1:], stdin_path=vectors_path, timeout=timeout)
    else:
        if stack_kb:
            real = compile_driver(ctx, b, "replay.c", wrap=wrap)
            rc, so, se = run_driver(ctx, "/bin/sh", ["-c", 'ulimit -s %d; exec "$0" "$@"' % stack_kb, real, od, str(stride)],
                                    stdin_path=vectors_path, timeout=timeout, env=env)
        else:
            rc, so, se = run_driver(ctx, exe, [od, str(stride)], stdin_path=vectors_path, timeout=timeout, env=env)
    res = {"outdir": od, "rc": rc, "stderr": se[-4000:], "viol": [], "summary": {}, "crash": None,
           "drift_path": os.path.join(od, "drift.ndjson"), "build": b["name"]}
    vp = os.path.join(od, "viol.ndjson")
    if os.path.exists(vp):
        res["viol"] = [json.loads(x) for x in open(vp) if x.strip()]
    if rc == 0:
        res["summary"] = json.load(open(os.path.join(od, "summary.json")))
    elif rc == 2:
        raise Infra("replay driver error: " + se[-2000:])
    else:
        cur = ""
        try:
            cur = open(os.path.join(od, "current.txt")).read()
        except OSError:
            pass
        if rc == 95 and os.path.exists(os.path.join(od, "summary.json")):
            res["summary"] = json.load(open(os.path.join(od, "summary.json")))
        res["crash"] = {"exit": rc, "current": cur[-3000:] if rc != 95 else "", "stderr": se[:3000] if rc == 95 else se[-3000:],
                        "monitor": "valgrind" if rc == 95 else "asan" if rc == 97 else "ubsan" if rc == 98 else "tsan" if rc == 96 else ""}
    for k in ("vectors", "calls", "checked", "pinned", "drift"):
        pass
    if res["summary"]:
        ctx.cov["evaluations"] += res["summary"].get("checked", 0)
        ctx.cov["distinct_nontrivial"] += res["summary"].get("pinned", 0)
        ctx.cov["drift"] += res["summary"].get("drift", 0)
        ctx.cov["replays"].append({"tag": tag, "build": b["name"], **res["summary"]})
    return res


# --------------------------------------------------------------------------
# findings, evidence, verdict

def load_known():
    p = os.path.join(VERIF, "known_findings.json")
    if not os.path.exists(p):
        return []
    return json.load(open(p))["findings"]


def bytes_to_text(b):
    return "".join(chr(x) if 32 <= x < 127 and x not in (34, 92) else "\\x%02x" % x for x in b)


def add_violation(ctx, prop, what, case, matcher_key=None):
    """record a violation of `prop`; if an OPEN known finding matches it is counted there instead"""
    for f in load_known():
        if f.get("status") != "open" or f.get("property") != prop:
            continue
        m = KNOWN_MATCHERS.get(f["id"])
        if m and m(what, case):
            ctx.known_hits.setdefault(f["id"], [f, 0])[1] += 1
            return
    ctx.violations.append({"property": prop, "what": what, "case": case})


KNOWN_MATCHERS = {}


def known(fid):
    def deco(fn):
        KNOWN_MATCHERS[fid] = fn
        return fn
    return deco


def add_sample(ctx, s):
    if len(ctx.cov["samples"]) < 12:
        ctx.cov["samples"].append(s)


def finish(ctx, level, rule, extra_cov=None, exhaustive=False):
    mine = [v for v in ctx.violations if v["property"] == ctx.prop]
    cov = dict(ctx.cov)
    cov["rule"] = rule
    cov["exhaustive"] = exhaustive
    if extra_cov:
        cov.update(extra_cov)
    if not cov["samples"]:
        cov["samples"] = ["(none recorded)"]
    cov["checker_cmd"] = "./check %s --tier %s" % (ctx.prop, ctx.tier)
    cov["known_findings_hit"] = {k: v[1] for k, v in ctx.known_hits.items()}
    cov["other_property_violations_seen"] = sorted({v["property"] for v in ctx.violations if v["property"] != ctx.prop})
    ev = {"property_id": ctx.prop, "tier": ctx.tier, "seed": ctx.seed, "level": level, "coverage": cov,
          "assumptions": ctx.assumptions, "wall_s": round(time.time() - ctx.t0, 1), "violations": len(mine)}
    evdir = os.environ.get("VERIF_EVIDENCE_DIR", os.path.join(VERIF, "evidence"))
    os.makedirs(evdir, exist_ok=True)
    with open(os.path.join(evdir, ctx.prop + ".json"), "w") as f:
        json.dump(ev, f, indent=1)
        f.write("\n")
    for fid, (fd, n) in sorted(ctx.known_hits.items()):
        print("KNOWN-FINDING: property=%s %s (%s; %d cases this run)" % (fd["property"], fd["id"], fd["what"], n))
    if mine:
        rd = os.path.join(os.environ.get("VERIF_REPLAY_DIR", os.path.join(VERIF, "replays")), ctx.prop)
        os.makedirs(rd, exist_ok=True)
        k = 1
        while os.path.exists(os.path.join(rd, "%d.json" % k)):
            k += 1
        rp = os.path.join(rd, "%d.json" % k)
        with open(rp, "w") as f:
            json.dump({"property": ctx.prop, "tier": ctx.tier, "seed": ctx.seed, "repo": REPO,
                       "violations": mine[:200], "total": len(mine)}, f, indent=1)
        for v in mine[:8]:
            sys.stderr.write("  violation: %s %s\n" % (v["what"], json.dumps(v["case"])[:400]))
        print("VIOLATION property=%s replay=%s" % (ctx.prop, rp))
        sys.stdout.flush()
        return 1
    print("OK property=%s tier=%s evaluations=%d states=%d wall=%.0fs" %
          (ctx.prop, ctx.tier, cov["evaluations"], cov["states"], time.time() - ctx.t0))
    return 0
