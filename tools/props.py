"""Per-property checks.  Each check = TLC runs over spec/ (model checking M |= P and
vector generation), replay of the vectors into the code built from /repo's working
tree (direction A), recorded executions validated by TLC (direction B)."""
import json, os, subprocess, sys
import vlib
from vlib import Infra, tlc_ok, replay, build, validate_trace, add_violation, add_sample, finish

ASCII_MODES = (822, 5321, 5322)


def cfg(consts, inv="Inv", extra=""):
    c = "CONSTANTS\n" + "".join("  %s = %s\n" % kv for kv in consts.items())
    return c + "INIT Init\nNEXT Next\nINVARIANT %s\nCHECK_DEADLOCK FALSE\n%s" % (inv, extra)


def sample_vectors(ctx, path, k=3, prefix='"['):
    n = 0
    with open(path, errors="replace") as f:
        for line in f:
            if line.startswith(prefix):
                n += 1
                if n in (50, 5000, 50000) or (n == 1 and k):
                    add_sample(ctx, line.strip().strip('"'))


def crash_violation(ctx, res, props_):
    if res["crash"]:
        for p in props_:
            add_violation(ctx, p, "crash/abort/hang while executing a vector (exit %s)" % res["crash"]["exit"],
                          {"build": res["build"], "current": res["crash"]["current"][-1500:],
                           "stderr": res["crash"]["stderr"][-1500:]})
        return True
    return False


# ---------------------------------------------------------------- local parts

def classify_local(ctx, v, optbits):
    case = {"kind": "local", "mode": v["mode"], "opts": v["opts"], "in": v["in"],
            "text": vlib.bytes_to_text(v["in"]), "expected": v["exp"], "got": v["got"], "model": v["model"]}
    if v["what"] == "decision":
        if optbits:
            add_violation(ctx, "C17", "local-part decision under build options %d" % optbits, case)
            if v["mode"] != 6531:
                add_violation(ctx, "C02", "ASCII local-part decision (build options %d)" % optbits, case)
        elif v["mode"] == 6531:
            add_violation(ctx, "C03", "6531 local-part decision", case)
        else:
            add_violation(ctx, "C02", "ASCII local-part decision", case)
        if v["exp"] == 1:   # rejected although valid: the reported local-part error is also untrue (C15)
            add_violation(ctx, "C15", "local-part error reported for a valid local part", case)
    elif v["what"].startswith("placement"):
        add_violation(ctx, "C06", "result depends on what lies outside the string", case)
    elif v["what"] in ("cross-mode", "cross-inclusion"):
        add_violation(ctx, "C12", "local-part scanners disagree: " + v["what"], case)


def suite_local(ctx, alpha, maxlen, optbits=0, variants=("default",)):
    r = tlc_ok(ctx, "MC_Local", cfg({"MaxLen": maxlen, "AlphaId": alpha, "OptBits": optbits}))
    sample_vectors(ctx, r["out"])
    for var in variants:
        b = build(ctx, var, optbits)
        res = replay(ctx, b, r["out"], "local-a%d-l%d-o%d" % (alpha, maxlen, optbits))
        crash_violation(ctx, res, ["C06", ctx.prop])
        for v in res["viol"]:
            classify_local(ctx, v, optbits)
        if res["summary"].get("viol", 0) > len(res["viol"]):
            ctx.log("note: %d violations, first %d kept" % (res["summary"]["viol"], len(res["viol"])))
        # drift: outcomes the model did not predict are validated against layer P's truth predicates
        n, bad = validate_trace(ctx, "Trace_Func", res["drift_path"])
        for (ln, ev, note) in bad:
            case = {"kind": ev["e"], "mode": ev.get("mode"), "opts": ev.get("o"), "in": ev["in"],
                    "text": vlib.bytes_to_text(ev["in"]), "rc": ev["rc"], "model": ev.get("mrc")}
            add_violation(ctx, "C15", "reported reason does not hold of the input", case)
    return r


# ---------------------------------------------------------------- host names, literals

def drift_to_c15(ctx, res, kinds=None):
    """unpredicted outcomes -> TLC validates them against the truth predicates of layer P"""
    if not os.path.exists(res["drift_path"]):
        return
    n, bad = validate_trace(ctx, "Trace_Func", res["drift_path"])
    for (ln, ev, note) in bad:
        case = {"kind": ev["e"], "mode": ev.get("mode"), "opts": ev.get("o"), "in": ev["in"],
                "text": vlib.bytes_to_text(ev["in"]), "rc": ev["rc"], "model": ev.get("mrc")}
        add_violation(ctx, "C15", "reported reason does not hold of the input", case)


def classify_host(ctx, v, optbits):
    case = {"kind": "host", "mode": v["mode"], "opts": v["opts"], "in": v["in"], "text": vlib.bytes_to_text(v["in"]),
            "expected": v["exp"], "got": v["got"], "model": v["model"], "what": v["what"]}
    if v["what"].startswith("placement"):
        add_violation(ctx, "C06", "result depends on what lies outside the string", case)
    elif optbits:
        add_violation(ctx, "C17", "host-name decision under build options %d" % optbits, case)
    else:
        add_violation(ctx, "C04", "host-name " + v["what"], case)
        if v["exp"] == 1 and v["what"] == "decision":
            add_violation(ctx, "C15", "domain error reported for a valid host name", case)


def suite_host(ctx, gen, maxlen, optbits=0, variants=("default",)):
    r = tlc_ok(ctx, "MC_Host", cfg({"MaxLen": maxlen, "Gen": gen, "OptBits": optbits}))
    sample_vectors(ctx, r["out"])
    for var in variants:
        b = build(ctx, var, optbits)
        res = replay(ctx, b, r["out"], "host-g%d-l%d-o%d" % (gen, maxlen, optbits))
        crash_violation(ctx, res, ["C06", ctx.prop])
        for v in res["viol"]:
            classify_host(ctx, v, optbits)
        drift_to_c15(ctx, res)


def classify_ip(ctx, v):
    case = {"kind": v["kind"], "mode": v["mode"], "tld_check": v["opts"], "in": v["in"],
            "text": vlib.bytes_to_text(v["in"]), "expected": v["exp"], "got": v["got"], "model": v["model"], "what": v["what"]}
    w = v["what"]
    if w == "decision":
        add_violation(ctx, "C05", "address-literal decision", case)
        add_violation(ctx, "C01", "address decision (literal domain)", case)
        if v["exp"] == 0:
            add_violation(ctx, "C16", "a syntactically invalid literal is accepted, i.e. rc = 0 and a family flag set on an invalid address", case)
    elif w == "family flag":
        add_violation(ctx, "C05", "address family reported", case)
        add_violation(ctx, "C16", "result flag does not match the form of the domain", case)
    elif w == "flag set on rejection":
        add_violation(ctx, "C16", "flag set although the address is invalid", case)
    elif w == "composition":
        add_violation(ctx, "C01", "literal: high-level decision differs from the public is_ipaddr on the bracket content", case)
        add_violation(ctx, "C15", "ip-addr error reported for a literal the library's own validator accepts (or the reverse)", case)
    elif w == "mode dependent":
        add_violation(ctx, "C12", "literal judged differently across modes", case)
    elif w == "mode/tld_check dependent":
        add_violation(ctx, "C08", "literal decision depends on tld_check", case)


def suite_ip(ctx, gen, maxlen, variants=("default",)):
    r = tlc_ok(ctx, "MC_Ip", cfg({"MaxLen": maxlen, "Gen": gen}))
    sample_vectors(ctx, r["out"])
    for var in variants:
        b = build(ctx, var, 0)
        res = replay(ctx, b, r["out"], "ip-g%d-l%d" % (gen, maxlen))
        crash_violation(ctx, res, ["C06", ctx.prop])
        for v in res["viol"]:
            classify_ip(ctx, v)
        drift_to_c15(ctx, res)


# ---------------------------------------------------------------- direction B: recorded executions

CLAUSE_PROPS = {   # failed clause of Trace_Func -> properties it speaks about, per event kind
    ("local", "decision"): ["C02", "C03"], ("local", "truth"): ["C15"], ("local", "range"): ["C15"],
    ("host", "decision"): ["C04"], ("host", "truth"): ["C15"], ("host", "range"): ["C15"],
    ("literal", "decision"): ["C05"], ("literal", "truth"): ["C15"],
    ("email", "decision"): ["C01"], ("email", "class"): ["C07", "C09"], ("email", "flag"): ["C16"], ("email", "record"): ["C16"],
    ("email", "truth"): ["C15"], ("email", "tldclass"): ["C07"], ("email", "idn"): ["C10", "C19"],
}


def report_bad_events(ctx, bad, optbits=0):
    import re
    for (ln, ev, note) in bad:
        clauses = re.findall(r'"([a-z ]+)"', note) or ["?"]
        case = {"event": ev.get("e"), "mode": ev.get("mode"), "tld_check": ev.get("tld"), "opts": ev.get("o"), "in": ev["in"][:400],
                "len": len(ev["in"]), "text": vlib.bytes_to_text(ev["in"][:200]), "rc": ev.get("rc"), "fl": ev.get("fl"), "idn": ev.get("idn"),
                "conv_code": ev.get("cc"), "conv_out": ev.get("co"), "failed_clauses": clauses}
        for c in clauses:
            props_ = CLAUSE_PROPS.get((ev.get("e"), c), ["C15"])
            if ev.get("e") == "local" and c == "decision":
                props_ = ["C03"] if ev.get("mode") == 6531 else ["C02"]
            if optbits:
                props_ = ["C17"]
            for p in props_:
                add_violation(ctx, p, "recorded execution rejected by the trace spec (clause %s)" % c, case)


def data_lines(ctx):
    """lines of the repository's own data files (addresses and local parts)"""
    addr, loc = [], []
    dd = os.path.join(vlib.REPO, "data")
    for fn in sorted(os.listdir(dd)):
        if not fn.endswith(".txt"):
            continue
        for raw in open(os.path.join(dd, fn), "rb").read().split(b"\n"):
            raw = raw.rstrip(b"\r")
            if not raw or raw.startswith(b"#") or b"\0" in raw:
                continue
            (loc if fn.startswith("localpart") else addr).append(list(raw))
            if b"\\" in raw:      # the test programs unescape \r \n \t: feed the unescaped form too
                u = raw.replace(b"\\r", b"\r").replace(b"\\n", b"\n").replace(b"\\t", b"\t")
                if u != raw and b"\0" not in u:
                    (loc if fn.startswith("localpart") else addr).append(list(u))
    return addr, loc


STRUCT = [64, 46, 34, 92, 91, 93, 58, 45, 32, 9, 13, 10, 40, 35, 95, 195, 169, 255, 49, 97]
TOKENS = [b"a", b"ab", b"x.com", b"@", b".", b"\"", b"\\", b" ", b"\r\n ", b"\t", b"[", b"]", b"1.2.3.4", b"IPv6:", b"::", b":", b"1", b"ff",
          b"-", b"_", b"example", b"test", b"localhost", b"com", b"org", b"xn--p1ai", b"\xc3\xa9", b"\xd0\xbf", b"\xff", b"\x01", b"\x7f", b"(", b"#",
          b"aaaaaaaaaaaaaaaaaaaaaaaaaaaaaaaaaaaaaaaaaaaaaaaaaaaaaaaaaaaaaaa", b"ru", b"arpa", b"\"a b\"", b"\"a\\\"b\"", b"a.b", b"0",
          b"\"a\"", b"..", b"].", b"a\"", b"@x.com", b"@[1.2.3.4]", b"@[IPv6:::1]", b"a@", b"\"\\\xc3\xa9\"", b".\xc3\xa9.", b"-."]


def gen_inputs(ctx, n_mut, n_rand, n_long):
    rng = ctx.rng
    addr, loc = data_lines(ctx)
    out_a, out_l = list(addr), list(loc)
    base = addr + [l + [64] + list(b"x.com") for l in loc]
    for _ in range(n_mut):
        b = list(rng.choice(base))
        for _k in range(rng.randint(1, 3)):
            op = rng.randint(0, 4)
            pos = rng.randint(0, len(b)) if b else 0
            if op == 0 and b:
                b[min(pos, len(b) - 1)] = rng.choice(STRUCT)
            elif op == 1:
                b.insert(pos, rng.choice(STRUCT))
            elif op == 2 and b:
                b.insert(pos, b[min(pos, len(b) - 1)])
            elif op == 3 and len(b) > 1:
                del b[min(pos, len(b) - 1)]
            else:
                b = b[:pos]
        out_a.append(b)
    for _ in range(n_rand):
        if rng.random() < 0.5:
            b = []
            for _k in range(rng.randint(1, 9)):
                b += list(rng.choice(TOKENS))
        else:
            b = [rng.randint(1, 255) for _k in range(rng.randint(0, 24))]
            if rng.random() < 0.7:
                b.insert(rng.randint(0, len(b)), 64)
        (out_a if rng.random() < 0.8 else out_l).append(b)
    for _ in range(n_long):
        b = []
        target = rng.choice([70, 130, 260, 600, 2000])
        while len(b) < target:
            b += list(rng.choice(TOKENS))
        (out_a if rng.random() < 0.6 else out_l).append(b)
    out_a = [x for x in out_a if 0 not in x]
    out_l = [x for x in out_l if 0 not in x]
    rng.shuffle(out_a)          # long inputs spread over the chains the trace spec validates in parallel
    rng.shuffle(out_l)
    return out_a, out_l


def suite_recorded(ctx, n_mut, n_rand, n_long, optbits=0, variant="default"):
    """direction B: the code's behaviour on the repository's data files, mutations, random and long strings, validated by TLC"""
    addrs, locs = gen_inputs(ctx, n_mut, n_rand, n_long)
    vec = ctx.path("record-%d.vec" % optbits)
    with open(vec, "w") as f:
        for a in addrs:
            f.write('"[18,%d,%d%s]"\n' % (optbits, len(a), "".join(",%d" % x for x in a)))
        for a in locs:
            f.write('"[19,%d,%d%s]"\n' % (optbits, len(a), "".join(",%d" % x for x in a)))
    b = build(ctx, variant, optbits)
    res = replay(ctx, b, vec, "record-o%d" % optbits)
    crash_violation(ctx, res, ["C06", ctx.prop])
    tr = os.path.join(res["outdir"], "trace.ndjson")
    if os.path.exists(tr):
        n, bad = validate_trace(ctx, "Trace_Func", tr)
        report_bad_events(ctx, bad, optbits)
        add_sample(ctx, open(tr).readline().strip()[:300])
    ctx.cov["recorded_inputs"] = ctx.cov.get("recorded_inputs", 0) + len(addrs) + len(locs)


# ---------------------------------------------------------------- whole addresses

def classify_email(ctx, v, optbits=0):
    w = v["what"]
    tld = v["opts"] % 2 if w not in ("decision", "decision-tld", "decision-local") else (1 if w == "decision-tld" else 0)
    case = {"kind": "email", "mode": v["mode"], "tld_check": tld, "in": v["in"], "text": vlib.bytes_to_text(v["in"]),
            "expected": v["exp"], "got": v["got"], "model": v["model"], "what": w}
    if optbits:     # the pins are those of the options (layer P takes them as a parameter): C17, and the property itself
        add_violation(ctx, "C17", "address outcome under build options %d: %s" % (optbits, w), case)
        case = dict(case, build_options=optbits)
    if w == "decision-local":
        add_violation(ctx, "C01", "address accepted although its local part is invalid for the mode", case)
        if not (optbits and v["mode"] == 6531):
            add_violation(ctx, "C03" if v["mode"] == 6531 else "C02", "a local part the mode's grammar rejects is accepted in front of this domain", case)
        if v["got"] == 8:
            add_violation(ctx, "C09", "an address that is not even syntactically valid is classified 'special'", case)
        elif v["got"] in range(1, 10):
            add_violation(ctx, "C07", "an address that is not even syntactically valid is given a TLD class", case)
        if v["got"] in range(1, 10):
            add_violation(ctx, "C16", "result code is a TLD class although the local part is invalid", case)
    elif w == "decision":
        add_violation(ctx, "C01", "address decision", case)
    elif w == "decision-tld":
        exp, got = v["exp"], v["got"]
        if exp == 8 or got == 8:
            add_violation(ctx, "C09", "reserved-domain classification", case)
            if exp != 8 and (exp in range(1, 10) or exp in (-23, -26)):
                add_violation(ctx, "C07", "TLD classification: 'special' reported for a domain whose last label decides otherwise", case)
        elif exp in range(1, 10) or exp in (-23, -26) or got in range(1, 10):
            add_violation(ctx, "C07", "TLD classification", case)
        else:
            add_violation(ctx, "C01", "address decision (tld_check on)", case)
        if exp in range(1, 10) or got in range(1, 10) or exp in (-23, -26):
            # a wrong class is also a wrong result code (C16) and, once the policy rejects it, a wrong reason (C15)
            add_violation(ctx, "C16", "result code is not the TLD class of the domain", case)
            add_violation(ctx, "C15", "reported TLD class / reason does not hold of the domain", case)
    elif w.startswith("extra strings"):
        add_violation(ctx, "C16", "EAV_EXTRA build: " + w, case)
    elif w in ("flag", "record"):
        add_violation(ctx, "C16", "result record: " + w, case)
        if w == "record" and tld == 0 and isinstance(v["exp"], int) and v["exp"] > 0:
            add_violation(ctx, "C08", "TLD class reported although tld_check is off", case)
    elif w in ("composition", "composition-idn", "eav_setup refused a defined mode"):
        add_violation(ctx, "C01", "high-level call differs from the composition of the public validators: " + w, case)
    elif w in ("eav-level", "eav-message"):
        add_violation(ctx, "C01", "eav_is_email differs from the per-mode function: " + w, case)
        add_violation(ctx, "C15", "eav_is_email return/errcode/message inconsistent: " + w, case)
    elif w.startswith("cross"):
        add_violation(ctx, "C12", "modes disagree: " + w, case)
        if w == "cross-mode-6531":
            add_violation(ctx, "C10", "all-ASCII domain: mode 6531 and the ASCII modes disagree (and not by an IDN error)", case)


def email_drift(ctx, res):
    if not os.path.exists(res["drift_path"]):
        return
    n, bad = validate_trace(ctx, "Trace_Func", res["drift_path"])
    for (ln, ev, note) in bad:
        case = {"kind": ev["e"], "mode": ev.get("mode"), "tld_check": ev.get("tld"), "in": ev["in"],
                "text": vlib.bytes_to_text(ev["in"]), "rc": ev["rc"], "fl": ev.get("fl"), "idn": ev.get("idn"),
                "conv_code": ev.get("cc"), "conv_out": ev.get("co"), "model": ev.get("mrc")}
        rc = ev["rc"]
        if ev.get("mode") == 6531 and "cc" in ev:
            add_violation(ctx, "C10", "mode 6531 outcome does not follow from the converter's answer", case)
            if ev.get("cc", 0) != 0:
                add_violation(ctx, "C19", "IDN failure not reported as such", case)
        if rc is not None and rc > 0:
            add_violation(ctx, "C07", "TLD class differs from the table", case)
        add_violation(ctx, "C15", "reported reason does not hold of the input", case)
        add_violation(ctx, "C16", "result record inconsistent", case)


def run_email_vectors(ctx, r, tag, optbits=0, variants=("default",)):
    sample_vectors(ctx, r["out"])
    for var in variants:
        b = build(ctx, "default" if var == "latin1" else var, optbits)
        res = replay(ctx, b, r["out"], tag + "-" + var, env=vlib.latin1_locale(ctx) if var == "latin1" else None)
        crash_violation(ctx, res, ["C06", ctx.prop])
        for v in res["viol"]:
            if v["kind"] == "email":
                classify_email(ctx, v, optbits)
        email_drift(ctx, res)


def suite_email(ctx, gen, maxlen, optbits=0, variants=("default",)):
    r = tlc_ok(ctx, "MC_Email", cfg({"MaxLen": maxlen, "Gen": gen, "OptBits": optbits}))
    run_email_vectors(ctx, r, "email-g%d-l%d-o%d" % (gen, maxlen, optbits), optbits, variants)


def suite_tld(ctx, part, rowmod=8, rowrem=None, variants=("default",)):
    if rowrem is None:
        rowrem = ctx.seed % rowmod
    r = tlc_ok(ctx, "MC_Tld", cfg({"Part": part, "RowMod": rowmod, "RowRem": rowrem}))
    run_email_vectors(ctx, r, "tld-p%d-%d-%d" % (part, rowmod, rowrem), 0, variants)
    return r


def c01(ctx):
    suite_email(ctx, 2, 0, variants=("default", "latin1"))
    suite_email(ctx, 2, 0, optbits=1)      # the mode-6531 rules are a build-time choice; the decision rule is the same
    suite_email(ctx, 2, 0, optbits=2)
    suite_ip(ctx, 2, 0)
    suite_email(ctx, 1, 5 if ctx.quick() else 7)
    suite_recorded(ctx, *((800, 800, 80) if ctx.quick() else (12000, 12000, 600)))
    return finish(ctx, "model_checking",
                  "TLC enumerates addresses: all strings over {a . @ \" [ ] 1 :} up to MaxLen and families (local-part pool x domain pool, "
                  "local parts of 58..70 octets, several '@'); per (mode, tld_check) layer P pins decision/code/flag; each vector is "
                  "executed through is_*_email, compared with the composition of the public per-part validators on L and D, and through "
                  "eav_init/eav_setup/eav_is_email")


def c07(ctx):
    suite_tld(ctx, 1, 8 if ctx.quick() else 1, None if ctx.quick() else 0, variants=("default", "latin1"))   # case folding is locale-bound
    suite_tld(ctx, 2)                      # listed TLDs behind / after reserved words keep their class
    suite_idn(ctx, (2,), maxlabels=1, variants=("default", "mkdebug"))      # internationalised TLDs in U-label form, long U-label
    # spellings, other dot code points; also on the Makefile's own `make debug` build (its traces must not change any outcome)
    suite_email(ctx, 2, 0, optbits=4)      # underscore build: the last label is still the whole last label
    return finish(ctx, "model_checking",
                  "every row of data/punycode.csv (of the tree under test) in lower/UPPER/mixed case behind 1-4 labels, as single label, "
                  "in U-label form; near misses (every proper prefix and suffix, single substitutions, one-character extensions, listed "
                  "label first with unlisted last) of the selected rows (quick: one row in 8 chosen by the seed; thorough: all); "
                  "class pinned by TldClassP; four modes, tld_check off and on")


def c09(ctx):
    suite_tld(ctx, 2)
    suite_idn(ctx, (2,), maxlabels=1)      # reserved names behind U-labels, other dot code points (mode 6531 converts first)
    suite_email(ctx, 2, 0, optbits=2)      # "no other domain is classified special" in the option builds too
    suite_email(ctx, 2, 0, optbits=1)
    return finish(ctx, "model_checking",
                  "reserved names (test, example, invalid, localhost, onion, example.com/net/org) behind 0-3 labels with every length 1..63 "
                  "in each position, three case patterns, root dot, and every one-edit neighbour (substitution, deletion, insertion) of "
                  "each reserved name; class pinned by IsReserved; four modes")


def c12(ctx):
    q = ctx.quick()
    suite_local(ctx, 2, 5 if q else 6)
    suite_email(ctx, 2, 0)
    suite_email(ctx, 1, 5 if q else 6)
    suite_ip(ctx, 2, 0)
    suite_tld(ctx, 2, variants=("default", "extra"))      # the EAV_EXTRA arms are per-mode copies as well
    if not q:
        suite_tld(ctx, 1, 4)
    return finish(ctx, "model_checking",
                  "relations evaluated on the observed results of the four modes for the same input (the spec marks the inputs to "
                  "which each relation applies): identical code for pure-ASCII quote-free local parts (6531: or IDN error), "
                  "5321-accept implies 822-accept, identical domain verdict/class/flags across the ASCII modes; inputs = all local "
                  "parts and addresses enumerated by MC_Local / MC_Email / MC_Ip / MC_Tld")


def suite_idn(ctx, parts=(1, 2, 3), maxlabels=2, variants=("default",), prop="C10"):
    for part in parts:
        r = tlc_ok(ctx, "MC_Idn", "CONSTANTS\n  Part = %d\n  MaxLabels = %d\nINIT Init\nNEXT Next\nINVARIANT Inv\nCHECK_DEADLOCK FALSE\n" % (part, maxlabels))
        sample_vectors(ctx, r["out"])
        for var in variants:
            b = build(ctx, var, 0)
            res = replay(ctx, b, r["out"], "idn-%d" % part)
            if var in ("asan", "tsan"):
                monitor_violation(ctx, res, "executing IDN vectors on build %s" % var)
            else:
                crash_violation(ctx, res, ["C06", ctx.prop])
            for v in res["viol"]:
                case = {"domain": v["in"][:300], "text": vlib.bytes_to_text(v["in"][:120]), "mode": v["mode"], "tld_check": v["opts"],
                        "expected": v["exp"], "got": v["got"], "converter_code_or_flags": v["model"]}
                add_violation(ctx, "C10", v["what"], case)
                add_violation(ctx, "C16", "result record differs between the two spellings of a domain: " + v["what"], case)
                if part == 2:
                    add_violation(ctx, "C07", "U-label and A-label spellings of a domain classify differently: " + v["what"], case)
                    if 8 in (v["exp"], v["got"]):
                        add_violation(ctx, "C09", "reserved name recognised in one spelling of a domain and not in the other: " + v["what"], case)
            email_drift(ctx, res)


def c16(ctx):
    q = ctx.quick()
    suite_idn(ctx, (2, 3))
    # the EAV_EXTRA build: lpart / domain strings (and the same record pins) on the pool and bounded-exhaustive addresses
    suite_email(ctx, 2, 0, variants=("extra", "extra-ndebug"))      # the strings must not depend on assert() being compiled in
    suite_email(ctx, 1, 4 if q else 6, variants=("extra",))
    suite_ip(ctx, 2, 0, variants=("extra",))
    suite_email(ctx, 2, 0)
    suite_email(ctx, 1, 5 if q else 6)
    suite_ip(ctx, 2, 0)
    suite_tld(ctx, 2)
    suite_tld(ctx, 1, 16 if q else 2)
    suite_recorded(ctx, *((800, 800, 80) if ctx.quick() else (6000, 6000, 300)))
    return finish(ctx, "model_checking",
                  "result record of every enumerated address in four modes x tld_check: at most one flag, exactly one on acceptance and "
                  "equal to the form of the domain, none when a half is syntactically invalid, rc = 0 / class / negative as pinned by "
                  "EmailP; unpredicted records validated by TLC (Trace_Func.EmailOk)")


def c15(ctx):
    q = ctx.quick()
    suite_local(ctx, 2, 5 if q else 6)
    suite_local(ctx, 4, 5 if q else 6)
    suite_host(ctx, 2, 0)
    suite_host(ctx, 1, 5 if q else 7)
    suite_ip(ctx, 2, 0)
    suite_email(ctx, 2, 0)
    suite_email(ctx, 1, 5 if q else 6)
    suite_tld(ctx, 2)
    suite_tld(ctx, 1, 16 if q else 4)
    suite_object(ctx, 5 if q else 6, faults=True, small=True, graph=not q)
    suite_object(ctx, 6, faults=False, small=True, graph=False)     # long enough for: IDN error, refused setup, errstr
    suite_policy(ctx, 1)        # the error code recorded for every (mask, result code, mode)
    suite_sweep(ctx, 2)         # "invalid UTF-8" only for ill-formed local parts
    suite_idn(ctx, (2, 3))      # IDN error / domain codes given the converter's answers
    suite_recorded(ctx, *((800, 800, 80) if ctx.quick() else (6000, 6000, 300)))
    suite_random_histories(ctx, 10 if q else 100, 150, pairs=False)      # return value / errcode / message along recorded histories
    return finish(ctx, "model_checking",
                  "every code the model returns satisfies its truth predicate (TLC invariant on every enumerated state); every observed code "
                  "either equals the model's or is validated by TLC against the truth predicates (drift trace); eav_is_email return value, "
                  "errcode and message checked against the result code on every address vector")


def suite_policy(ctx, part):
    r = tlc_ok(ctx, "MC_Policy", "CONSTANTS\n  Part = %d\nINIT Init\nNEXT Next\nINVARIANT Inv\nINVARIANT OwnBitOnly\nCHECK_DEADLOCK FALSE\n" % part)
    sample_vectors(ctx, r["out"])
    b = build(ctx, "default", 0)
    res = replay(ctx, b, r["out"], "policy-%d" % part)
    crash_violation(ctx, res, ["C06", "C08"])
    for v in res["viol"]:
        case = {"kind": v["kind"], "what": v["what"], "mode_enum": v["mode"], "mask_x2_plus_tld_or_mask": v["opts"], "in": v["in"],
                "text": vlib.bytes_to_text(v["in"]) if v["what"] == "address" else None,
                "expected_ret100_err": v["exp"], "got_ret100_err": v["got"]}
        add_violation(ctx, "C08", "policy outcome: " + v["what"], case)
        if v["what"] in ("callback", "message"):
            add_violation(ctx, "C15", "eav_is_email return/errcode inconsistent with the result code", case)
    return r


def c08(ctx):
    suite_policy(ctx, 1)
    suite_policy(ctx, 2)
    suite_policy(ctx, 3)
    return finish(ctx, "model_checking",
                  "complete enumeration: 2^11 masks x result codes {-35..-2, 0..9} x 4 modes through a caller-installed callback; "
                  "2^11 masks x one real address per TLD class of the table + reserved, unlisted, single-label, literal, invalid domains "
                  "x 4 modes x tld_check; eav_init defaults; TLC also checks PolicyP = the nine-arm switch and that only a class's own "
                  "bit matters", exhaustive=True)


# ---------------------------------------------------------------- the object

def B(t):
    return list(t.encode("utf-8")) if isinstance(t, str) else list(t)

# the first five entries are the "small" pool of the history replays: generic TLD, a domain the converter refuses (accepted in the
# ASCII modes), generic-restricted TLD, a literal, the infrastructure TLD - pairwise different outcomes and policy arms
POOL = [B("a@x.com"), B("a@xn--a.com"), B("a@x.biz"), B("a@[1.2.3.4]"), B("a@x.arpa"), B('"\x01"@x.org'), B("a@example.org"), B("a@localhostx"),
        B("a@x.zzzq"), B("a@x.abarth"), B("\u00e9@x.com"), B("a@\u043f\u043e\u0447\u0442\u0430.\u0440\u0444"), B("a@x.ru"),
        B("a..b@x.com"), B("a@[IPv6:::1]"), B("a@a-.com"), B("a@x.aero"), B("a@")]


def tla_seq(b):
    return "<<" + ",".join(str(x) for x in b) + ">>"


def conv_answers(ctx, domains):
    """the environment: the real converter's answers (harness/convprobe.c, same libidn2 as the library)"""
    exe = ctx.path("convprobe")
    if not os.path.exists(exe):
        r = subprocess.run(["cc", "-O2", "-o", exe, os.path.join(vlib.VERIF, "harness", "convprobe.c"), "-lidn2"],
                           stdout=subprocess.PIPE, stderr=subprocess.STDOUT, text=True)
        if r.returncode:
            raise Infra("convprobe compile: " + r.stdout)
    inp = "".join(",".join(str(x) for x in d) + "\n" for d in domains)
    r = subprocess.run([exe], input=inp, stdout=subprocess.PIPE, text=True, check=True)
    out = []
    for line in r.stdout.splitlines():
        f = [int(x) for x in line.split()]
        out.append((f[0], f[2:2 + f[1]]))
    if len(out) != len(domains):
        raise Infra("convprobe answered %d of %d" % (len(out), len(domains)))
    return out


def make_env(ctx, pool):
    """EnvPool.tla (pool + recorded converter answers), pre-run MC_Pool, EnvData.tla (literal result tables)"""
    sd = vlib.spec_dir(ctx)
    doms = []
    for a in pool:
        at = max([i for i, x in enumerate(a) if x == 64], default=-1)
        d = a[at + 1:] if at >= 0 else []
        doms.append(d if d and 0 not in d else [120])
    conv = conv_answers(ctx, doms)
    body = "Pool == <<\n" + ",\n".join("  [a |-> %s, conv |-> [code |-> %d, out |-> %s]]" % (tla_seq(a), c, tla_seq(o))
                                        for a, (c, o) in zip(pool, conv)) + "\n>>\n"
    with open(os.path.join(sd, "EnvPool.tla"), "w") as f:
        f.write("------------------------------ MODULE EnvPool ------------------------------\nEXTENDS Integers\n" + body +
                "=============================================================================\n")
    r = tlc_ok(ctx, "MC_Pool", "INIT Init\nNEXT Next\nINVARIANT Inv\nCHECK_DEADLOCK FALSE\n", workers=4)
    rows = {}
    for line in open(r["out"], errors="replace"):
        if line.startswith('"[12,'):
            v = json.loads(line.strip().strip('"'))
            rows[(v[1], v[2], v[3])] = v[4:]
    res, resf = [], []
    for i in range(1, len(pool) + 1):
        for m in range(1, 5):
            for t in (0, 1):
                rc, fl, idn, frc, ffl = rows[(i, m, t)]
                res.append("<<%d,%d,%d>>" % (rc, fl, idn))
                resf.append("<<%d,%d>>" % (frc, ffl))
    with open(os.path.join(sd, "EnvData.tla"), "w") as f:
        f.write("------------------------------ MODULE EnvData ------------------------------\nEXTENDS EnvPool, Integers\n"
                "ResSeq == << %s >>\nResFaultSeq == << %s >>\n"
                "=============================================================================\n" % (", ".join(res), ", ".join(resf)))
    poolvec = ctx.path("pool.vec")
    with open(poolvec, "w") as f:
        for i, a in enumerate(pool, 1):
            f.write('"[8,%d,%d%s]"\n' % (i, len(a), "".join(",%d" % x for x in a)))
    return poolvec


EAV_CFG = ("CONSTANTS\n  Backend = \"%s\"\n  MaxHist = %d\n  Faults = %s\n  Small = %s\n"
           "SPECIFICATION Spec\nINVARIANT Inv\nPROPERTY HistoryIndependent\nPROPERTY ErrstrRecent\nCHECK_DEADLOCK FALSE\n")


def classify_history(ctx, v, backend="idn2"):
    w = v["what"]
    case = {"kind": "history", "what": w, "failing_step": v["opts"], "history": v["in"][1:], "expected": v["exp"], "got": v["got"],
            "backend": backend,
            "legend": "11 ints per step: op(1 init,2 rfc=,3 tld_check=,4 allow_tld=,5 setup,6 is_email(pool idx,fault),7 errstr,8 free), a1, a2, model obs..."}
    if backend != "idn2":
        add_violation(ctx, "C18", "backend %s: %s" % (backend, w), case)
    steps = v["in"][1:]
    earlier_fault = any(steps[11 * k] == 6 and steps[11 * k + 2] != 0 for k in range(min(v["opts"] + 1, len(steps) // 11)))
    if w.startswith("outcome differs") or w.startswith("errstr does not"):
        add_violation(ctx, "C13", w, case)
        if earlier_fault:
            add_violation(ctx, "C19", "after a converter failure: " + w, case)
    elif w.startswith("a call changed the caller"):
        add_violation(ctx, "C13", w, case)
        add_violation(ctx, "C08", w, case)
    elif w in ("setup return", "errstr after refused setup", "diagnostics inconsistent", "errstr NULL"):
        add_violation(ctx, "C15", w, case)
        if w == "diagnostics inconsistent":
            add_violation(ctx, "C13", w, case)
        # the most recent validation up to the failing step: was it an IDN failure (model errcode = EEAV_IDN_ERROR)?
        last = [k for k in range(min(v["opts"] + 1, len(steps) // 11)) if steps[11 * k] == 6]
        if w in ("diagnostics inconsistent", "errstr NULL") and last and steps[11 * last[-1] + 5] == 2:
            add_violation(ctx, "C19", "an IDN failure is not reported with the IDN library's message: " + w, case)
    elif w.startswith("IDN failure"):
        add_violation(ctx, "C19", w, case)
        add_violation(ctx, "C15", w, case)
    elif w.startswith("conversion attempted"):
        add_violation(ctx, "C18", w, case)
    elif w.startswith("allocation not released") or w.startswith("release of memory"):
        for p in ("C06", "C13", "C19"):
            add_violation(ctx, p, w, case)


def monitor_violation(ctx, res, what):
    """a sanitizer / valgrind report while executing spec-generated vectors is a C06 violation"""
    if res["crash"]:
        add_violation(ctx, "C06", "%s: %s (exit %s)" % (what, res["crash"].get("monitor") or "crash", res["crash"]["exit"]),
                      {"build": res["build"], "report": res["crash"]["stderr"][:2500], "current_vector": res["crash"]["current"][-800:]})
        return True
    return False


def suite_object(ctx, maxhist, faults, small, backend="idn2", wrap=True, graph=True, pool=None, valgrind_n=0, variant="default"):
    pool = pool or POOL
    poolvec = make_env(ctx, pool)
    if graph:   # the whole state graph: histories of every length; -coverage: every action of the object must have been taken
        rg = tlc_ok(ctx, "MC_Eav", EAV_CFG % (backend, 0, str(int(faults)), "TRUE" if small else "FALSE"), timeout=3000,
                    coverage=True)
        import re
        acts = {}
        for line in open(rg["out"], errors="replace"):
            m = re.match(r"<(Do\w+) line \d+, col \d+ to line \d+, col \d+ of module MC_Eav>: (\d+):(\d+)", line.strip())
            if m:
                acts[m.group(1)] = {"distinct": int(m.group(2)), "taken": int(m.group(3))}
        if acts:
            ctx.cov.setdefault("action_coverage", {})["MC_Eav/%s%s" % (backend, "/faults" if faults else "")] = acts
            never = [a for a, c in acts.items() if c["taken"] == 0]
            if never:
                raise Infra("vacuity: actions never taken in MC_Eav: %s" % never)
    if maxhist:
        r = tlc_ok(ctx, "MC_Eav", EAV_CFG % (backend, maxhist, str(int(faults)), "TRUE"), timeout=3000)
        sample_vectors(ctx, r["out"])
        vec = ctx.path("hist-%d-%s-%d.vec" % (maxhist, backend, int(faults)))
        with open(vec, "w") as f:
            f.write(open(poolvec).read())
            for line in open(r["out"], errors="replace"):
                if line.startswith('"[7,'):
                    f.write(line)
        b = build(ctx, variant, 0, backend)
        res = replay(ctx, b, vec, "hist-%d-%s-%d" % (maxhist, variant, int(faults)), wrap=wrap)
        crash_violation(ctx, res, ["C06", ctx.prop])
        for v in res["viol"]:
            classify_history(ctx, v, backend)
        ctx.cov["traces_validated_against_impl"] += res["summary"].get("vectors", 0)
        if valgrind_n:
            # definedness and leaks: the same histories on an uninitialised heap eav_t under valgrind-memcheck
            lines = open(vec).read().splitlines(True)
            head = [l for l in lines if l.startswith('"[8,')]
            hist = [l for l in lines if l.startswith('"[7,')]
            step = max(1, len(hist) // valgrind_n)
            sub = ctx.path("hist-vg.vec")
            with open(sub, "w") as f:
                f.writelines(head + hist[::step][:valgrind_n])
            bg = build(ctx, "debug", 0, backend)
            rv = replay(ctx, bg, sub, "hist-vg", valgrind=True, timeout=1500, wrap=wrap)
            monitor_violation(ctx, rv, "valgrind-memcheck on spec histories (uninitialised heap eav_t)")
        return res


def pair_pool(ctx):
    """addresses whose validation exercises whatever the library could remember from one call to the next: neighbours in the
    TLD table, labels sharing long prefixes with listed TLDs, long internationalised names equal in their first 255 octets,
    numeric fields that overflow followed by ordinary ones"""
    import gen_tlddata, random
    rows = [r[0] for r in gen_tlddata.rows(os.path.join(vlib.REPO, "data", "punycode.csv"))]
    rng = random.Random(ctx.seed)
    out = [B(x) for x in ("a@x.com", "a@x.zzzzz", "a@[1.2.3.4]", "a@[192.0.2.25000000000000000000]", "a@[IPv6:::ffff:1.2.3.4]",
                          "a@[IPv6:1::100000000000000000000]", "a@[IPv6:1::2]", "a@[999999999999999999999.1.1.1]", "a@x.test", "a@localhost",
                          "a@x.xn--p1ai", "a@\u043f\u043e\u0447\u0442\u0430.\u0440\u0444", "b@\u2615.de", "a@x..com", "A@X.COM")]
    picks = sorted(rng.sample(range(1, len(rows) - 1), 3) + [rows.index("uk") if "uk" in rows else 1])
    for i in picks:                                   # a row, its predecessor and its successor
        out += [B("a@x." + rows[j]) for j in (i - 1, i, i + 1)]
    longrows = [r for r in rows if len(r) >= 16]
    for r in rng.sample(longrows, min(3, len(longrows))):
        out += [B("a@x." + r), B("a@x." + r[:15] + "qq"), B("a@x." + r[:-1]), B("a@x." + r + "q")]
    pn = "\u043f" * 36
    for t in ("\u0440\u0444", "com", "xn--p1ai", "zzzzz"):
        out.append(B("a@" + ".".join([pn] * 4) + "." + t))
    out += [B("a" * 64 + "@x.com"), B("a" * 65 + "@x.com"), B("\u00e9" * 20 + "@x.com")]
    seen, res = set(), []
    for a in out:
        if tuple(a) not in seen:
            seen.add(tuple(a)); res.append(a)
    return res


def suite_random_histories(ctx, nhist, nsteps, pool=None, wrap=True, pairs=True):
    """direction B for the object: random legal histories drawn by the driver, and scripted ones in which every ordered pair of
    the pair pool occurs side by side, validated statefully by Trace_Eav"""
    pool = pool or (POOL + BIGPOOL)
    vec = ctx.path("rand-hist.vec")
    with open(vec, "w") as f:
        for i, a in enumerate(pool, 1):
            if 0 in a:
                continue
            f.write('"[8,%d,%d%s]"\n' % (i, len(a), "".join(",%d" % x for x in a)))
        f.write('"[22,%d,%d,%d]"\n' % (ctx.seed % 100000, nhist, nsteps))
        if pairs:
            pp = pair_pool(ctx)
            base = len(pool) + 1
            for i, a in enumerate(pp, base):
                f.write('"[8,%d,%d%s]"\n' % (i, len(a), "".join(",%d" % x for x in a)))
            seq = [x for i in range(len(pp)) for j in range(len(pp)) for x in (base + i, base + j)]
            for rfc, tld in ((3, 1), (1, 1)) if ctx.quick() else ((3, 1), (1, 1), (0, 1), (2, 1), (3, 0)):
                f.write('"[23,%d,%d,%d%s]"\n' % (rfc, tld, len(seq), "".join(",%d" % x for x in seq)))
            nhist += 2 if ctx.quick() else 5
    b = build(ctx, "default", 0)
    res = replay(ctx, b, vec, "rand-hist", wrap=wrap)
    if crash_violation(ctx, res, ["C06", ctx.prop]):
        return      # the recorded trace is cut short: nothing to validate
    tr = os.path.join(res["outdir"], "histtrace.ndjson")
    n = sum(1 for _ in open(tr))
    r = vlib.tlc(ctx, "Trace_Eav", "INIT Init\nNEXT Next\nINVARIANT Ok\nINVARIANT ModelOk\nCHECK_DEADLOCK FALSE\n", workers=1, env={"TRACE": tr}, heap="8g")
    if r["rc"] != 0:
        if "Invariant ModelOk is violated" in r["tail"]:
            add_violation(ctx, "C13", "the object model reports a misuse of memory along a recorded history", {"tlc": r["tail"][-1500:]})
        else:
            raise Infra("Trace_Eav failed to run: " + r["tail"][-3000:])
    elif r["distinct"] != n + 1:
        raise Infra("Trace_Eav consumed %d of %d events" % (r["distinct"] - 1, n))
    ctx.cov["states"] += r["distinct"]
    ctx.cov["transitions"] += r["generated"]
    ctx.cov["trace_events"] += n
    ctx.cov["traces_validated_against_impl"] += nhist
    ctx.cov["evaluations"] += n
    ctx.cov["distinct_nontrivial"] += n
    import re
    bad = dict(vlib.bad_lines(r["out"]))
    if bad:
        for i, line in enumerate(open(tr), 1):
            if i in bad:
                ev = json.loads(line)
                clauses = re.findall(r'"([a-z ]+)"', bad[i])
                case = {"event_no": i, "event": {k: (v if not isinstance(v, list) or len(v) < 120 else v[:120]) for k, v in ev.items()},
                        "text": vlib.bytes_to_text(ev["in"][:120]) if "in" in ev else None, "failed_clauses": clauses}
                for c in clauses:
                    for p in {"history": ["C13"], "function": ["C13", "C12", "C01"], "legal": ["C13"], "policy": ["C08", "C15"], "decision": ["C01"], "message": ["C15"],
                              "idn": ["C19", "C10"], "setup": ["C15"], "errstr": ["C13", "C15"], "heap": ["C06", "C13"]}.get(c, ["C13"]):
                        add_violation(ctx, p, "recorded object history rejected by Trace_Eav (clause %s)" % c, case)
    add_sample(ctx, open(tr).readlines()[min(5, n - 1)].strip()[:300])


BIGPOOL = [B(x) for x in (
    "user@example.com", "user@iana.org", "USER@IANA.ORG", "a.b.c@sub.domain.co.uk", "x@y.museum", "x@y.aero", "x@y.arpa", "x@y.biz", "x@y.an",
    "x@y.zzzzz", "x@localhost", "x@test", "x@a.test", "x@invalid", "x@y.onion", "x@example.net.", "x@y.com.", "x@[127.0.0.1]", "x@[0.0.0.0]",
    "x@[IPv6:2001:db8::1]", "x@[2001:db8:1:1:1:1:1:1]", "x@[IPv6:1.2.3.4]", "x@[1.2.3.4]x", "x@[1.2.3", "\"x y\"@y.com", "\"x\\\"y\"@y.com",
    "\"x\"y@y.com", "x..y@y.com", ".x@y.com", "x.@y.com", "x y@y.com", "x@y z.com", "x@-y.com", "x@y-.com", "x@y..com", "x@.y.com", "x@123.456",
    "x@y_z.com", "", "@", "x@", "@y.com", "x@@y.com", "x@y@z.com", "\"x@y\"@z.com", "xxxxxxxxxxxxxxxxxxxxxxxxxxxxxxxxxxxxxxxxxxxxxxxxxxxxxxxxxxxxxxxxx@y.com",
    "xxxxxxxxxxxxxxxxxxxxxxxxxxxxxxxxxxxxxxxxxxxxxxxxxxxxxxxxxxxxxxxx@y.com", "\u0438\u0432\u0430\u043d@\u043f\u043e\u0447\u0442\u0430.\u0440\u0444",
    "x@\u4f8b\u3048.\u30c6\u30b9\u30c8", "x@xn--p1ai", "x@y.xn--p1ai", "x@xn--a.com", "x@\u2615.de", "\u00e9.\u00e9@y.com", "x#y@y.com", "x{y}@y.com",
    "x@y.COM", "x@Example.Com", "x@a.b.c.d.e.f.g.h.ru", "x@1.2.3.ru", "\"\\\u00e9\"@y.com", "x@y.c", "\"\r\n x\"@y.com", "\"x\ty\"@y.com")]
BIGPOOL += [list(b"a" * 60 + b"@" + b".".join([b"b" * 60] * 4) + b".com"), list(b"a" * 64 + b"@" + b".".join([b"c" * 63] * 4) + b".org"),
            list(b"a" * 30 + b"@" + b".".join([b"d" * 50] * 7)), list(b"x" * 400 + b"@y.com"), list(b"x@" + b"y" * 400)]
BIGPOOL += [list(b"x\xff@y.com"), list(b"x@y\xff.com"), list(b"\xc3@y.com"), list(b"x\x01y@y.com"), list(b"\"x\x01y\"@y.com"), list(b"\"x\x7f\"@y.org")]


def apalache_dispatch_core(ctx):
    """unbounded part: DispatchOk / NoNullCall is an inductive invariant of the dispatch core (all int values of rfc, any history)"""
    src = os.path.join(vlib.VERIF, "spec", "apalache", "EavCore.tla")
    done = 0
    jt = ctx.path("apalache", "jtmp", "x")[:-2]
    os.makedirs(jt, exist_ok=True)
    for init, length in (("Init", 0), ("IndInit", 1)):
        od = ctx.path("apalache", "%s" % init, "x")[:-2]
        r = subprocess.run(["timeout", "600", "apalache-mc", "check", "--init=" + init, "--inv=IndInv", "--length=%d" % length,
                            "--out-dir=" + od, src], stdout=subprocess.PIPE, stderr=subprocess.STDOUT, text=True, cwd=ctx.scratch,
                           env=dict(os.environ, TMPDIR=jt))      # the launcher makes its java.io.tmpdir with mktemp -t
        if "The outcome is: NoError" in r.stdout:
            done += 1
        else:
            raise Infra("Apalache did not discharge %s => IndInv (model-level, not a verdict about the code):\n%s" % (init, r.stdout[-1500:]))
    ctx.cov["apalache_inductive_invariant"] = {"spec": "spec/apalache/EavCore.tla", "invariant": "IndInv (DispatchOk, NoNullCall)",
                                               "obligations": 2, "discharged": done,
                                               "meaning": "for every int value of eav_t.rfc and every call history the per-mode function called "
                                                          "is the one confirmed by the last successful eav_setup"}


def c13(ctx):
    apalache_dispatch_core(ctx)
    suite_object(ctx, 6, faults=False, small=False)
    suite_random_histories(ctx, 20 if ctx.quick() else 400, 200)
    return finish(ctx, "model_checking",
                  "TLC explores the whole reachable state graph of the eav_t machine (all histories of every length over the pool and "
                  "user values) checking history independence (action property), dispatch = confirmed mode, heap balance, no read of an "
                  "undefined field, errstr = most recent call; every history of exactly MaxHist calls is replayed on the real object (malloc'd, "
                  "uninitialised before eav_init) and every eav_is_email compared with a fresh object given the same settings; "
                  "allocation accounting through --wrap")


def suite_scaling(ctx):
    """linear work: deterministic instruction counts (callgrind) of the whole driver run on one shape at n, 2n, 4n;
    growth from 2n to 4n must be about twice the growth from n to 2n (quadratic work gives four times)"""
    from concurrent.futures import ThreadPoolExecutor
    r = [t for t in ctx.cov["tlc_runs"] if t["module"] == "MC_Struct"]
    out = ctx.struct_out
    b = build(ctx, "debug", 0)
    exe = vlib.compile_driver(ctx, b, "replay.c")
    jobs = []
    for line in open(out, errors="replace"):
        if line.startswith('"[14,'):
            v = line[2:40].split(",")
            shape, n = int(v[1]), int(v[2])
            f = ctx.path("scale", "s%d-n%d.vec" % (shape, n))
            open(f, "w").write(line)
            jobs.append((shape, n, f))

    def run(job):
        shape, n, f = job
        od = ctx.path("scale", "o-%d-%d" % (shape, n), "x")[:-2]
        cg = os.path.join(od, "cg.out")
        rc, so, se = vlib.run_driver(ctx, "valgrind", ["--tool=callgrind", "--callgrind-out-file=" + cg, "-q", exe, od, "0"],
                                     stdin_path=f, timeout=900)
        ir = None
        if os.path.exists(cg):
            for l in open(cg):
                if l.startswith("summary:") or l.startswith("totals:"):
                    ir = int(l.split()[1])
        return shape, n, rc, ir

    with ThreadPoolExecutor(max_workers=vlib.NCPU) as ex:
        results = list(ex.map(run, jobs))
    by = {}
    for shape, n, rc, ir in results:
        if rc != 0 or ir is None:
            add_violation(ctx, "C06", "run on a long input did not finish normally (exit %s)" % rc, {"shape": shape, "n": n})
            continue
        by.setdefault(shape, []).append((n, ir))
    table = []
    for shape, pts in sorted(by.items()):
        pts.sort()
        if len(pts) != 3:
            continue
        (n1, i1), (n2, i2), (n3, i3) = pts
        d1, d2 = i2 - i1, i3 - i2
        ratio = d2 / d1 if d1 > 0 else 0
        per_byte = d2 / (n3 - n2)
        table.append({"shape": shape, "n": n1, "ir": [i1, i2, i3], "growth_ratio": round(ratio, 3), "instr_per_byte": round(per_byte, 1)})
        ctx.cov["evaluations"] += 3
        ctx.cov["distinct_nontrivial"] += 3
        if ratio > 2.6 or per_byte > 20000:
            add_violation(ctx, "C06", "work is not linear in the input length", table[-1])
    ctx.cov["scaling"] = table


def c06(ctx):
    q = ctx.quick()
    # (1) every quick vector family under ASan+UBSan, with guard-page placement
    vecs = []
    vecs.append(("local", tlc_ok(ctx, "MC_Local", cfg({"MaxLen": 4 if q else 5, "AlphaId": 1, "OptBits": 0}))))
    vecs.append(("local3", tlc_ok(ctx, "MC_Local", cfg({"MaxLen": 4 if q else 5, "AlphaId": 3, "OptBits": 0}))))
    vecs.append(("sweep1", tlc_ok(ctx, "MC_LocalSweep", cfg({"Part": 1, "Full": "FALSE", "OptBits": 0, "EmitCli": "FALSE"}))))
    vecs.append(("sweep2", tlc_ok(ctx, "MC_LocalSweep", cfg({"Part": 2, "Full": "FALSE" if q else "TRUE", "OptBits": 0, "EmitCli": "FALSE"}))))
    vecs.append(("idn2", tlc_ok(ctx, "MC_Idn", "CONSTANTS\n  Part = 2\n  MaxLabels = 1\nINIT Init\nNEXT Next\nINVARIANT Inv\nCHECK_DEADLOCK FALSE\n")))
    vecs.append(("idn3", tlc_ok(ctx, "MC_Idn", "CONSTANTS\n  Part = 3\n  MaxLabels = 1\nINIT Init\nNEXT Next\nINVARIANT Inv\nCHECK_DEADLOCK FALSE\n")))
    vecs.append(("host", tlc_ok(ctx, "MC_Host", cfg({"MaxLen": 0, "Gen": 2, "OptBits": 0}))))
    vecs.append(("host1", tlc_ok(ctx, "MC_Host", cfg({"MaxLen": 5 if q else 6, "Gen": 1, "OptBits": 0}))))
    vecs.append(("ip", tlc_ok(ctx, "MC_Ip", cfg({"MaxLen": 0, "Gen": 2}))))
    vecs.append(("email", tlc_ok(ctx, "MC_Email", cfg({"MaxLen": 0, "Gen": 2, "OptBits": 0}))))
    vecs.append(("email1", tlc_ok(ctx, "MC_Email", cfg({"MaxLen": 4 if q else 5, "Gen": 1, "OptBits": 0}))))
    vecs.append(("tld2", tlc_ok(ctx, "MC_Tld", cfg({"Part": 2, "RowMod": 8, "RowRem": 0}))))
    rs = tlc_ok(ctx, "MC_Struct", cfg({"Tier": 1 if q else 2}), heap="10g")
    ctx.struct_out = rs["out"]
    vecs.append(("struct", rs))
    ba, bd = build(ctx, "asan", 0), build(ctx, "default", 0)
    for tag, r in vecs:
        sample_vectors(ctx, r["out"], k=1)
        for b in (ba, bd):
            res = replay(ctx, b, r["out"], "c06-" + tag, stride=1 if b is bd else 0)
            monitor_violation(ctx, res, "executing %s vectors on build %s" % (tag, b["variant"]))
            for v in res["viol"]:
                if v["what"].startswith("placement"):
                    add_violation(ctx, "C06", "result depends on bytes outside the string", v)
                elif v["kind"] == "robust":
                    for p_ in ("C06", "C13", "C16"):
                        add_violation(ctx, p_, v["what"], {"mode": v["mode"], "len": len(v["in"]), "in_prefix": v["in"][:80], "rc": v["exp"], "result_rc": v["got"]})
    # (1b) no input-sized stack buffers: 70 000-octet shapes through every entry point with the driver under a 64 KiB stack
    rs3 = tlc_ok(ctx, "MC_Struct", cfg({"Tier": 3}), heap="10g")
    res = replay(ctx, bd, rs3["out"], "c06-smallstack", stack_kb=64)
    monitor_violation(ctx, res, "executing 70 000-octet inputs under a 64 KiB stack")
    # (2) lifecycle: object model (defined fields, heap balance) + histories under --wrap accounting and valgrind
    suite_object(ctx, 5 if q else 6, faults=True, small=True, valgrind_n=300 if q else 3000)
    # the EAV_EXTRA build allocates two more strings per accepted address: same histories, same accounting
    suite_object(ctx, 4 if q else 5, faults=True, small=True, graph=False, variant="extra")
    # (3) linear work: instruction counts at n, 2n, 4n for adversarial shapes
    suite_scaling(ctx)
    return finish(ctx, "model_checking",
                  "spec-generated vectors (bounded-exhaustive + families + structural positions: every byte value at first/last byte and "
                  "around @ [ ] . \", 0-length and 64 KiB inputs) executed under guard pages (read before the string / past the terminator / "
                  "write to the input faults at once), ASan+UBSan, valgrind-memcheck on an uninitialised heap eav_t, --wrap allocation "
                  "accounting, callgrind instruction counts at n/2n/4n; TLC checks the object model for reads of undefined fields, heap "
                  "balance and rc <= 9 (abort unreachable)")


def c11(ctx):
    import re
    sd = vlib.spec_dir(ctx)
    b = build(ctx, "default", 0)
    # program 1: the compiled table, dumped through the exported symbol + is_tld on every row / near-row
    vec = ctx.path("table.vec")
    open(vec, "w").write('"[15]"\n')
    res = replay(ctx, b, vec, "table")
    crash_violation(ctx, res, ["C06", "C11"])
    trace = ctx.path("table-trace.ndjson")
    out = open(trace, "w")
    out.write(open(os.path.join(res["outdir"], "table.ndjson")).read())
    # programs 2 and 3: the repository's generators re-run on the shipped CSVs (Text::CSV stand-in on perl -I)
    g = ctx.path("gen", "x")[:-2]
    subprocess.run(["rsync", "-a", "--exclude", ".git", "--exclude", "*.o", "--exclude", "*.a", "--exclude", "*.so", "--exclude", "*.bin",
                    vlib.REPO + "/", g + "/"], check=True)
    shim = os.path.join(vlib.VERIF, "harness", "perl-shim")
    textual = []
    # the outputs that exist before the run are longer than and different from what must come out (a stale tail must not survive)
    for rel in ("data/tld-domains.txt", "src/auto_tld.c", "include/eav/auto_tld.h"):
        with open(os.path.join(g, rel), "ab") as f:
            f.write(b"zzz-stale-1.zzz-stale-1\nzzz-stale-2.zzz-stale-2\n" * 40)
    # ... through the repository's own recipes (`make auto`, `make tld-domains`), the documented way to regenerate
    r1 = subprocess.run(["make", "-C", g, "auto", "PERL=perl -I" + shim], stdout=subprocess.PIPE, stderr=subprocess.STDOUT, text=True)
    r2 = subprocess.run(["make", "-C", g, "tld-domains", "PERL=perl -I" + shim], stdout=subprocess.PIPE, stderr=subprocess.STDOUT, text=True)
    if r1.returncode or r2.returncode:
        add_violation(ctx, "C11", "generator fails on the shipped CSV", {"gentld": r1.stdout[-800:], "gen_utf8_pass_test": r2.stdout[-800:]})
    else:
        i = 0
        for line in open(os.path.join(g, "src", "auto_tld.c"), encoding="utf-8", errors="replace"):
            m = re.match(r'\s*\{\s*"([^"]*)"\s*,\s*(\d+)\s*,\s*(\w+)\s*\}', line)
            if m:
                i += 1
                ty = {"TLD_TYPE_NOT_ASSIGNED": 1, "TLD_TYPE_COUNTRY_CODE": 2, "TLD_TYPE_GENERIC": 3, "TLD_TYPE_GENERIC_RESTRICTED": 4,
                      "TLD_TYPE_INFRASTRUCTURE": 5, "TLD_TYPE_SPONSORED": 6, "TLD_TYPE_TEST": 7, "TLD_TYPE_SPECIAL": 8,
                      "TLD_TYPE_RETIRED": 9}.get(m.group(3), -1)
                out.write(json.dumps({"e": "row", "src": "generated", "i": i, "term": 0, "d": list(m.group(1).encode()),
                                      "len": int(m.group(2)), "type": ty}) + "\n")
            elif re.match(r"\s*\{\s*NULL\s*,\s*0\s*,\s*0\s*\}", line):
                out.write(json.dumps({"e": "row", "src": "generated", "i": i + 1, "term": 1, "d": [], "len": 0, "type": 0}) + "\n")
        if i == 0:
            ctx.cov["note_generated"] = "rows of the regenerated src/auto_tld.c could not be parsed: that program is not decided in this run"
        else:
            out.write(json.dumps({"e": "count", "src": "generated", "n": i}) + "\n")
        j = 0
        for line in open(os.path.join(g, "data", "tld-domains.txt"), "rb"):
            j += 1
            out.write(json.dumps({"e": "row", "src": "domains", "i": j, "term": 0, "d": list(line.rstrip(b"\n")), "len": 0, "type": 0}) + "\n")
        out.write(json.dumps({"e": "count", "src": "domains", "n": j}) + "\n")
        # regenerated artefacts must reproduce the shipped ones (generation timestamp aside)
        def lines(p, skip_ts):
            ls = open(p, "rb").read().split(b"\n")
            return [x for x in ls if not (skip_ts and x.startswith(b"/* this file was auto-generated at"))]
        for rel, ts in (("src/auto_tld.c", True), ("include/eav/auto_tld.h", False), ("data/tld-domains.txt", False)):
            a, bb = lines(os.path.join(vlib.REPO, rel), ts), lines(os.path.join(g, rel), ts)
            ctx.cov["evaluations"] += len(a)
            ctx.cov["distinct_nontrivial"] += len(a)
            if a != bb:
                k = next((x for x in range(min(len(a), len(bb))) if a[x] != bb[x]), min(len(a), len(bb)))
                add_violation(ctx, "C11", "re-running the generator does not reproduce the shipped file",
                              {"file": rel, "first_differing_line": k + 1, "shipped": a[k][:200].decode(errors="replace") if k < len(a) else None,
                               "regenerated": bb[k][:200].decode(errors="replace") if k < len(bb) else None})
    # program 4: the two CSVs name the same TLDs: the converter's A-label of every U-label row of data/raw.csv (environment answer,
    # recorded) against the row of data/punycode.csv
    import gen_tlddata
    urows = [r[0] for r in gen_tlddata.rows(os.path.join(vlib.REPO, "data", "raw.csv"))]
    conv = conv_answers(ctx, [B(u) for u in urows])
    for i, (u, (cc, co)) in enumerate(zip(urows, conv), 1):
        out.write(json.dumps({"e": "row", "src": "uconv", "i": i, "term": 0, "d": B(u), "len": cc, "type": 0, "a": list(co)}) + "\n")
    out.write(json.dumps({"e": "count", "src": "uconv", "n": len(urows)}) + "\n")
    out.close()
    n, bad = validate_trace(ctx, "Trace_Table", trace, workers=1)
    for (ln, ev, note) in bad:
        ev2 = dict(ev)
        if "d" in ev2:
            ev2["text"] = vlib.bytes_to_text(ev2["d"])
        if "in" in ev2:
            ev2["text"] = vlib.bytes_to_text(ev2["in"])
        add_violation(ctx, "C11", "table event contradicts data/punycode.csv: %s/%s" % (ev.get("e"), ev.get("src", "is_tld")), ev2)
    # program 5: the generator as a translation on another input.  The shipped CSV exercises only part of the documented rule
    # (it has no 'Retired' manager at all): a few rows get the manager values the rule distinguishes, the table is regenerated
    # through `make auto`, and its rows are validated against ClassOfRow over THAT csv (TldData regenerated for this one run)
    import csv as _csv, random as _random, gen_tlddata as _gt
    cpath = os.path.join(g, "data", "punycode.csv")
    rows_ = list(_csv.reader(open(cpath, newline="", encoding="utf-8")))
    rng_ = _random.Random(ctx.seed)
    vals = ["Retired", "RETIRED", "retired", "Not assigned", "not assigned", "Retired (was: Example Registry)", "Un-retired Holdings", "Notassigned Ltd"]
    for v_, k_ in zip(vals, rng_.sample(range(1, len(rows_)), len(vals))):
        if len(rows_[k_]) >= 3:
            rows_[k_][2] = v_
    with open(cpath, "w", newline="", encoding="utf-8") as f:
        _csv.writer(f, quoting=_csv.QUOTE_ALL, lineterminator="\n").writerows(rows_)
    r5 = subprocess.run(["make", "-C", g, "auto", "PERL=perl -I" + shim], stdout=subprocess.PIPE, stderr=subprocess.STDOUT, text=True)
    if r5.returncode:
        add_violation(ctx, "C11", "generator fails on a CSV with 'Retired' / 'Not assigned' managers", {"gentld": r5.stdout[-800:]})
    else:
        trace5 = ctx.path("table-trace-mutated.ndjson")
        with open(trace5, "w") as o5:
            i = 0
            for line in open(os.path.join(g, "src", "auto_tld.c"), encoding="utf-8", errors="replace"):
                m = re.match(r'\s*\{\s*"([^"]*)"\s*,\s*(\d+)\s*,\s*(\w+)\s*\}', line)
                if m:
                    i += 1
                    ty = {"TLD_TYPE_NOT_ASSIGNED": 1, "TLD_TYPE_COUNTRY_CODE": 2, "TLD_TYPE_GENERIC": 3, "TLD_TYPE_GENERIC_RESTRICTED": 4,
                          "TLD_TYPE_INFRASTRUCTURE": 5, "TLD_TYPE_SPONSORED": 6, "TLD_TYPE_TEST": 7, "TLD_TYPE_SPECIAL": 8,
                          "TLD_TYPE_RETIRED": 9}.get(m.group(3), -1)
                    o5.write(json.dumps({"e": "row", "src": "generated", "i": i, "term": 0, "d": list(m.group(1).encode()),
                                         "len": int(m.group(2)), "type": ty}) + "\n")
                elif re.match(r"\s*\{\s*NULL\s*,\s*0\s*,\s*0\s*\}", line):
                    o5.write(json.dumps({"e": "row", "src": "generated", "i": i + 1, "term": 1, "d": [], "len": 0, "type": 0}) + "\n")
            o5.write(json.dumps({"e": "count", "src": "generated", "n": i}) + "\n")
        sd5 = vlib.spec_dir(ctx)
        _gt.main(cpath, os.path.join(sd5, "TldData.tla"), os.path.join(g, "data", "raw.csv"))
        try:
            n5, bad5 = validate_trace(ctx, "Trace_Table", trace5, workers=1)
        finally:
            _gt.main(os.path.join(vlib.REPO, "data", "punycode.csv"), os.path.join(sd5, "TldData.tla"), os.path.join(vlib.REPO, "data", "raw.csv"))
        n += n5
        for (ln, ev, note) in bad5:
            ev2 = dict(ev)
            ev2["text"] = vlib.bytes_to_text(ev2.get("d", []))
            add_violation(ctx, "C11", "generated row contradicts the documented rule on a CSV with 'Retired' / 'Not assigned' managers", ev2)
    add_sample(ctx, open(trace).readline().strip())
    add_sample(ctx, "programs: compiled tld_list[] (via exported symbol + is_tld), util/gentld.pl output, util/gen_utf8_pass_test.pl output")
    shutil_rm(g)
    return finish(ctx, "translation_validation",
                  "the CSV of the tree under test is the specification (TldData + ClassOfRow); three programs are validated against it row "
                  "by row by TLC (Trace_Table): the compiled tld_list[] (every row: label, length = strlen+1, class, order, terminator, "
                  "count; is_tld on every label and on 4 variations of it), the output of util/gentld.pl re-run on the shipped CSV, the "
                  "output of util/gen_utf8_pass_test.pl; plus line-by-line comparison of the regenerated files with the shipped ones",
                  extra_cov={"programs": 3, "disagreements_checked": n})


def shutil_rm(p):
    import shutil
    shutil.rmtree(p, ignore_errors=True)


def writable_statics(b):
    """symbols with storage in writable sections of the library objects of build b (schedule-independent evidence)"""
    objs = subprocess.run(["ar", "t", b["lib"]], stdout=subprocess.PIPE, text=True, check=True).stdout.split()
    syms, undef = [], set()
    work = os.path.join(os.path.dirname(b["dir"]), "objs-" + b["name"])
    os.makedirs(work, exist_ok=True)
    subprocess.run(["ar", "x", b["lib"]], cwd=work, check=True)
    for o in sorted(set(objs)):
        r = subprocess.run(["objdump", "-t", os.path.join(work, o)], stdout=subprocess.PIPE, text=True).stdout
        for line in r.splitlines():
            f = line.split()
            if len(f) >= 5 and f[-3] in (".data", ".bss", ".tdata", ".tbss", ".data.rel", ".data.rel.local", "COM", "*COM*"):
                try:
                    size = int(f[-2], 16)
                except ValueError:
                    continue
                if size > 0 and not f[-1].startswith("."):
                    syms.append("%s:%s(%s,%d)" % (o, f[-1], f[-3], size))
            if "*UND*" in line:
                undef.add(f[-1])
        h = subprocess.run(["objdump", "-h", os.path.join(work, o)], stdout=subprocess.PIPE, text=True).stdout
        for line in h.splitlines():
            f = line.split()
            if len(f) >= 3 and f[1] in (".data", ".bss", ".tdata", ".tbss", ".data.rel", ".data.rel.local") and int(f[2], 16) > 0:
                tag = "%s:<section %s,%d>" % (o, f[1], int(f[2], 16))
                if not any(s.startswith(o + ":") for s in syms):
                    syms.append(tag)
    shutil_rm(work)
    sync = sorted(u for u in undef if any(k in u for k in ("pthread_mutex", "pthread_once", "pthread_rwlock", "__atomic", "pthread_spin", "call_once", "mtx_")))
    # library functions whose whole purpose is to change process-wide state (shared mutable memory inside libc)
    GLOBAL_MUTATORS = {"setlocale", "setenv", "putenv", "unsetenv", "clearenv", "srand", "rand", "srandom", "random", "strtok", "tmpnam",
                       "signal", "chdir", "umask", "tzset", "setbuf", "setvbuf", "srand48", "drand48", "lrand48", "textdomain"}
    writable_statics.global_mutators = sorted(undef & GLOBAL_MUTATORS)
    return syms, sync


def c14(ctx):
    q = ctx.quick()
    b = build(ctx, "default", 0)
    syms, sync = writable_statics(b)
    gm = list(getattr(writable_statics, "global_mutators", []))
    for be in ("idn", "idnkit"):      # the other two backend source sets (partial/idn, partial/idnkit) are part of the library too
        s2, y2 = writable_statics(build(ctx, "default", 0, be))
        syms += ["%s/%s" % (be, x) for x in s2 if x not in syms]
        sync = sorted(set(sync) | set(y2))
        gm = sorted(set(gm) | set(getattr(writable_statics, "global_mutators", [])))
    ctx.cov["writable_static_storage"] = syms
    ctx.cov["synchronisation_symbols_referenced"] = sync
    ctx.cov["process_state_mutators_referenced"] = gm
    if gm:      # the shared cell then lives in libc: every call is modelled as writing it (same TLC model, cell named after the function)
        syms = syms + ["libc:" + g for g in gm]
    # design level: all interleavings of overlapping calls; the library's writable static storage is taken from the build
    sw = "{" + ", ".join('"%s"' % s.replace('"', "") for s in syms) + "}"
    r = vlib.tlc(ctx, "Threads", "CONSTANTS\n  NThreads = %d\n  NCalls = %d\n  SharedWritable = %s\nSPECIFICATION Spec\n"
                 "INVARIANT NoDataRace\nINVARIANT Sequential\nCHECK_DEADLOCK FALSE\n" % (3, 2 if q else 3, sw))
    ctx.cov["states"] += r["distinct"]
    ctx.cov["transitions"] += r["generated"]
    if r["rc"] != 0:
        if "Invariant NoDataRace is violated" in r["tail"]:
            if not sync:
                add_violation(ctx, "C14", "the library has writable static storage and references no synchronisation primitive: "
                              "two overlapping calls conflict on it in the interleaving TLC found",
                              {"writable_static_storage": syms, "tlc": r["tail"][-1500:]})
            else:
                ctx.cov["note"] = "writable statics exist but synchronisation primitives are referenced: left to the race detector"
        else:
            raise Infra("Threads model failed: " + r["tail"][-2000:])
    # executions: the address vectors run concurrently (TSan build and default build)
    r1 = tlc_ok(ctx, "MC_Email", cfg({"MaxLen": 0, "Gen": 2, "OptBits": 0}))
    r2 = tlc_ok(ctx, "MC_Email", cfg({"MaxLen": 4, "Gen": 1, "OptBits": 0}))
    r3 = tlc_ok(ctx, "MC_Tld", cfg({"Part": 2, "RowMod": 8, "RowRem": 0}))
    vec = ctx.path("threads.vec")
    with open(vec, "w") as f:
        for r_ in (r1, r2, r3):
            for line in open(r_["out"], errors="replace"):
                if line.startswith('"[5,'):
                    f.write(line)
    sample_vectors(ctx, vec)
    for variant, nth, rounds in (("tsan", 4 if q else 16, 1 if q else 4), ("tsan-extra", 4 if q else 8, 1 if q else 2),
                                 ("default", 8 if q else 16, 3 if q else 40)):
        bb = build(ctx, variant, 0)
        exe = vlib.compile_driver(ctx, bb, "threads.c")
        od = ctx.path("threads-" + variant, "x")[:-2]
        rc, so, se = vlib.run_driver(ctx, exe, [od, str(nth), str(rounds)], stdin_path=vec, timeout=2500)
        if rc == 2:
            raise Infra("threads driver: " + se[-1500:])
        if rc != 0 or "WARNING: ThreadSanitizer" in se:
            add_violation(ctx, "C14", "ThreadSanitizer report / abnormal exit (%s) while %d threads validate concurrently" % (rc, nth),
                          {"build": variant, "report": se[:3000]})
            continue
        sm = json.load(open(os.path.join(od, "summary.json")))
        ctx.cov["evaluations"] += sm["calls"]
        ctx.cov["distinct_nontrivial"] += sm["addresses"] * 8
        ctx.cov["replays"].append({"tag": "threads-" + variant, **sm})
        ctx.cov["traces_validated_against_impl"] += nth
        if sm["mismatches"]:
            bad = [json.loads(x) for x in open(os.path.join(od, "threads.ndjson"))][:20]
            add_violation(ctx, "C14", "a thread obtained an outcome different from the single-threaded run", {"build": variant, "cases": bad})
    return finish(ctx, "model_checking",
                  "TLC explores all interleavings of overlapping calls of 3 threads with the library's writable static storage extracted from "
                  "the object files of the build under test (objdump: .data/.bss/.tdata/.tbss symbols) - a conflict exists iff that set is "
                  "non-empty and unsynchronised; the TLC-generated address vectors are validated concurrently by 4-16 threads (own eav_t each, "
                  "shared read-only strings) in a ThreadSanitizer build and a default build and every outcome is compared with the "
                  "single-threaded run")


def c20(ctx):
    import cli
    q = ctx.quick()
    r = tlc_ok(ctx, "MC_Cli", cfg({"MaxLines": 2, "Tier": 1 if q else 2}), heap="10g")
    cli.run_cli(ctx, "default", r["out"], "default")
    r2 = tlc_ok(ctx, "MC_Cli", cfg({"MaxLines": 1 if q else 2, "Tier": 1 if q else 2}), heap="10g")
    cli.run_cli(ctx, "asan", r2["out"], "asan")
    # the local-part automata-conformance suite as one file: the tool links its own copy of the UTF-8 decoder in front of the library's
    r3 = tlc_ok(ctx, "MC_LocalW", "CONSTANTS\n  OptBits = 0\n  MaxDepth = 12\n  EmitCli = TRUE\nINIT Init\nNEXT Next\nVIEW View\nINVARIANT Inv\nCHECK_DEADLOCK FALSE\n", heap="10g")
    cli.run_cli_sweep(ctx, "default", r3["out"], "wsuite")
    # ... and every UTF-8 candidate (all 2-byte sequences, 3- and 4-byte boundary cover) in six contexts
    r4 = tlc_ok(ctx, "MC_LocalSweep", cfg({"Part": 2, "Full": "FALSE", "OptBits": 0, "EmitCli": "TRUE"}), heap="10g")
    cli.run_cli_sweep(ctx, "default", r4["out"], "utf8sweep")
    return finish(ctx, "model_checking",
                  "TLC enumerates every file of at most MaxLines lines over the line shapes of MC_Cli (empty, blanks, comments, valid / invalid "
                  "addresses, trailing / leading blanks, CR inside, ill-formed UTF-8 at even and odd offsets, control characters, NUL, 2047..8192 "
                  "byte lines, 600 control characters) x {LF, CR LF, no final newline}; Cli.tla pins per line: comment or not, the address handed "
                  "to the library, the echo; the real eav tool is run on each file (default and ASan+UBSan builds) and its stdout / exit "
                  "status compared; verdict and message compared with eav_is_email under default settings on the pinned address")


def c10(ctx):
    q = ctx.quick()
    outs = []
    outs.append(("idn-scripts", tlc_ok(ctx, "MC_Idn", "CONSTANTS\n  Part = 1\n  MaxLabels = %d\nINIT Init\nNEXT Next\nINVARIANT Inv\nCHECK_DEADLOCK FALSE\n" % (2 if q else 3))))
    outs.append(("idn-tlds", tlc_ok(ctx, "MC_Idn", "CONSTANTS\n  Part = 2\n  MaxLabels = 1\nINIT Init\nNEXT Next\nINVARIANT Inv\nCHECK_DEADLOCK FALSE\n")))
    outs.append(("idn-violations", tlc_ok(ctx, "MC_Idn", "CONSTANTS\n  Part = 3\n  MaxLabels = 1\nINIT Init\nNEXT Next\nINVARIANT Inv\nCHECK_DEADLOCK FALSE\n")))
    b = build(ctx, "default", 0)
    for tag, r in outs:
        sample_vectors(ctx, r["out"])
        res = replay(ctx, b, r["out"], tag)
        crash_violation(ctx, res, ["C06", "C10"])
        for v in res["viol"]:
            add_violation(ctx, "C10", v["what"], {"domain": v["in"], "text": vlib.bytes_to_text(v["in"]), "mode": v["mode"], "tld_check": v["opts"],
                                                 "expected": v["exp"], "got": v["got"], "converter_code_or_flags": v["model"]})
        email_drift(ctx, res)
    # all-ASCII domains: 6531 accepts only what the ASCII modes accept, same class, else IDN error (address vectors, relation 'cross-mode-6531')
    suite_email(ctx, 2, 0)
    suite_tld(ctx, 2)
    suite_tld(ctx, 1, 16 if q else 2)
    return finish(ctx, "model_checking",
                  "TLC enumerates UTF-8 domains of 1..MaxLabels labels over letters/digits of 8 scripts + ASCII, every internationalised TLD of "
                  "the table in U-form behind ASCII / Cyrillic / itself, and a list of UTF-8 / IDNA2008 violations; for each the driver obtains "
                  "the A-label spelling from the converter and compares the library's outcome for both spellings (mode 6531) and the ASCII modes' "
                  "outcome for the A-label (decision, TLD class, flags, tld_check off/on); every outcome is also validated by TLC against the "
                  "recorded converter answer (Trace_Func.EmailOk); all-ASCII domains through the address / TLD vectors")


def c17(ctx):
    import re
    q = ctx.quick()
    # the Makefile's defaults: all three options OFF.  Authoritative: what the default build actually compiles with
    r = subprocess.run(["make", "-C", vlib.REPO, "-pn", "static"], stdout=subprocess.PIPE, stderr=subprocess.DEVNULL, text=True)
    ctx.cov["makefile_option_lines"] = [l for l in r.stdout.splitlines() if re.match(r"(RFC6531_FOLLOW_RFC5322|RFC6531_FOLLOW_RFC20|LABELS_ALLOW_UNDERSCORE)\\s*[:?]?=", l)][:9]
    ctx.cov["evaluations"] += 3
    ctx.cov["distinct_nontrivial"] += 3
    b0 = build(ctx, "default", 0)
    if any(("-D" + o) in b0["make_log"] for o in ("RFC6531_FOLLOW_RFC5322", "RFC6531_FOLLOW_RFC20", "LABELS_ALLOW_UNDERSCORE")):
        add_violation(ctx, "C17", "default build compiles with an option defined", {"log": b0["make_log"][-500:]})
    # each option alone, then the combinations: the spec is instantiated with the same options as the build
    # per-byte sweeps and UTF-8 candidates under the two RFC6531_* options (what they change is character-specific)
    suite_sweep(ctx, 1, optbits=1)
    suite_sweep(ctx, 2, optbits=1)
    suite_sweep(ctx, 1, optbits=2)
    suite_sweep(ctx, 2, optbits=2)
    # automata-conformance suites under the options: the state cover follows the grammar of the build
    suite_wmethod(ctx, "local", optbits=1)
    suite_wmethod(ctx, "local", optbits=2)
    suite_wmethod(ctx, "host", optbits=4)
    if not q:
        suite_wmethod(ctx, "local", optbits=3)
    # the options together with the README's explicit-backend invocation (make FORCE_IDN=.. DEFS=.. LIBS=.. OPTION=ON)
    r7 = tlc_ok(ctx, "MC_Email", cfg({"MaxLen": 0, "Gen": 2, "OptBits": 7}))
    # ... and with the options exported in the environment (README: "export or define inline")
    for b7, tag7 in ((build(ctx, "default", 7, "idn"), "idn"), (build(ctx, "default", 7, opts_via_env=True), "env")):
        res = replay(ctx, b7, r7["out"], "c17-o7-%s" % tag7)
        crash_violation(ctx, res, ["C06", "C17"])
        for v in res["viol"]:
            if v["kind"] == "email":
                classify_email(ctx, v, 7)
    # the option builds where plain char is unsigned
    suite_sweep(ctx, 2, optbits=2, variants=("uchar",))
    suite_sweep(ctx, 1, optbits=1, variants=("uchar",))
    plan = [(1, [("local", 2, 5 if q else 6), ("email", 2, 0)]),
            (2, [("local", 5, 4 if q else 5), ("local", 6, 5 if q else 6), ("local", 2, 5), ("email", 2, 0)]),
            (4, [("host", 2, 0), ("host", 1, 5 if q else 7), ("email", 2, 0)]),
            (3, [("local", 5, 4), ("local", 2, 4 if q else 5)]),
            (5, [("local", 2, 4), ("host", 1, 4 if q else 6)]),
            (6, [("local", 5, 4), ("host", 1, 4 if q else 6)]),
            (7, [("local", 5, 4), ("local", 2, 4), ("host", 2, 0), ("email", 2, 0)])]
    for ob, suites in plan:
        for kind, a, l in suites:
            if kind == "local":
                suite_local(ctx, a, l, optbits=ob)
            elif kind == "host":
                suite_host(ctx, a, l, optbits=ob)
            else:
                suite_email(ctx, a, l, optbits=ob)
    for ob in (1, 2, 4, 7):
        suite_recorded(ctx, *((300, 400, 40) if q else (2000, 3000, 100)), optbits=ob)
    return finish(ctx, "model_checking",
                  "the spec's option record o = [rfc20, f5322, us] is instantiated like the build (8 combinations through the repository "
                  "Makefile); TLC enumerates local parts / host names / addresses under o and pins what the options document (mode 6531 "
                  "only for the two RFC6531_* options, host names for the underscore option, everything else as in the default build); "
                  "each vector replayed on the matching build; Makefile defaults read from make -pn")


def c18(ctx):
    q = ctx.quick()
    # every backend source set compiles through the repository Makefile (partial/idn and partial/idnkit against thin adapters)
    for be in ("idn2", "idn", "idnkit"):
        b = build(ctx, "default", 0, be)
        warn = [l for l in b["make_log"].splitlines() if "warning:" in l or "error:" in l]
        ctx.cov["evaluations"] += 1
        ctx.cov["distinct_nontrivial"] += 1
        if warn:
            ctx.cov.setdefault("build_warnings", {})[be] = warn[:10]
    r_pool = tlc_ok(ctx, "MC_Email", cfg({"MaxLen": 0, "Gen": 2, "OptBits": 0}))
    r_e = tlc_ok(ctx, "MC_Email", cfg({"MaxLen": 4 if q else 5, "Gen": 1, "OptBits": 0}))
    r_t2 = tlc_ok(ctx, "MC_Tld", cfg({"Part": 2, "RowMod": 8, "RowRem": 0}))
    r_t1 = tlc_ok(ctx, "MC_Tld", cfg({"Part": 1, "RowMod": 16 if q else 4, "RowRem": ctx.seed % 4}))
    r_p = tlc_ok(ctx, "MC_Policy", "CONSTANTS\n  Part = 1\nINIT Init\nNEXT Next\nINVARIANT Inv\nCHECK_DEADLOCK FALSE\n")
    r_i2 = tlc_ok(ctx, "MC_Idn", "CONSTANTS\n  Part = 2\n  MaxLabels = 1\nINIT Init\nNEXT Next\nINVARIANT Inv\nCHECK_DEADLOCK FALSE\n")
    r_i3 = tlc_ok(ctx, "MC_Idn", "CONSTANTS\n  Part = 3\n  MaxLabels = 1\nINIT Init\nNEXT Next\nINVARIANT Inv\nCHECK_DEADLOCK FALSE\n")
    base_syms, _ = writable_statics(build(ctx, "default", 0, "idn2"))
    for be in ("idn", "idnkit"):
        b = build(ctx, "default", 0, be)
        # no backend copy keeps state of its own between calls that the libidn2 copy does not keep (C14 for every backend)
        s2, y2 = writable_statics(b)
        own = [x for x in s2 if x not in base_syms]
        ctx.cov.setdefault("writable_static_storage_per_backend", {})[be] = s2
        if own and not y2:
            add_violation(ctx, "C18", "the %s source set has writable static storage the libidn2 build does not have: concurrent "
                          "validations differ between the backends" % be, {"symbols": own})
        for tag, r in (("pool", r_pool), ("email", r_e), ("tld2", r_t2), ("tld1", r_t1), ("policy", r_p), ("idn2", r_i2), ("idn3", r_i3)):
            res = replay(ctx, b, r["out"], "c18-%s-%s" % (tag, be))
            crash_violation(ctx, res, ["C06", "C18"])
            for v in res["viol"]:
                add_violation(ctx, "C18", "backend %s: %s %s" % (be, v["kind"], v["what"]),
                              {"in": v["in"], "text": vlib.bytes_to_text(v["in"]), "mode": v["mode"], "expected": v["exp"], "got": v["got"]})
            n, bad = validate_trace(ctx, "Trace_Func", res["drift_path"]) if os.path.exists(res["drift_path"]) else (0, [])
            for (ln, ev, note) in bad:
                add_violation(ctx, "C18", "backend %s: outcome does not follow from the converter's answer" % be,
                              {"in": ev["in"], "text": vlib.bytes_to_text(ev["in"]), "rc": ev["rc"], "mode": ev.get("mode")})
        # all call histories, with converter faults, on this backend: outcomes + create/destroy balance
        suite_object(ctx, 5 if q else 6, faults=True, small=True, backend=be, graph=True)
        # the EAV_EXTRA strings of this backend's copies (result initialisation is a per-backend macro arm)
        bx = build(ctx, "extra", 0, be)
        for tag, r in (("pool", r_pool), ("tld2", r_t2)):
            res = replay(ctx, bx, r["out"], "c18-extra-%s-%s" % (tag, be))
            crash_violation(ctx, res, ["C06", "C18"])
            for v in res["viol"]:
                add_violation(ctx, "C18", "backend %s, EAV_EXTRA build: %s %s" % (be, v["kind"], v["what"]),
                              {"in": v["in"], "text": vlib.bytes_to_text(v["in"]), "mode": v["mode"], "expected": v["exp"], "got": v["got"]})
        suite_object(ctx, 4, faults=True, small=True, backend=be, graph=False, variant="extra")
    return finish(ctx, "model_checking",
                  "the three partial/<backend> source sets built through the repository Makefile (idn, idnkit against thin adapters over "
                  "the same converter); the address / TLD / reserved / policy vectors and all object histories of length L (with converter "
                  "faults) replayed on each; TLC checks the object model with CONSTANT Backend for context balance (ctx in {0,1}, released "
                  "exactly once by a later ASCII eav_setup or eav_free); adapter counters observed after every history")


def c19(ctx):
    suite_object(ctx, 5, faults=True, small=True)
    # what a failed conversion left behind must survive any walk through the modes (histories of 9 / 10 calls, mode change = one step)
    suite_object(ctx, 9, faults=3, small=True, graph=False)
    suite_object(ctx, 5, faults=True, small=True, graph=False, variant="ndebug")      # release build: assert() compiled out
    suite_object(ctx, 5, faults=True, small=True, graph=False, variant="extra")       # the strings of the EAV_EXTRA record on failures
    # recorded random histories over the large pool (it holds domains of 300-400 bytes that the real converter refuses):
    # allocation balance at every eav_free, outcome equal to a fresh object after every failure
    suite_random_histories(ctx, 20 if ctx.quick() else 200, 200)
    if not ctx.quick():     # every libidn2 code in the model (full pool), and longer fault-free histories around the failures
        tlc_ok(ctx, "MC_Eav", EAV_CFG % ("idn2", 0, "2", "TRUE"), timeout=6000)
    return finish(ctx, "fault_enumeration",
                  "every libidn2 return code (31) injected at every conversion call of every history (TLC state graph with the converter as "
                  "nondeterministic environment); histories of MaxHist calls with a fault plan replayed with the converter replaced at link "
                  "time, alternately with and without an output buffer; containment, message, heap balance, next validation unaffected")


def c04(ctx):
    suite_host(ctx, 2, 0)
    suite_host(ctx, 2, 0, optbits=4)        # "underscore too, only when built with LABELS_ALLOW_UNDERSCORE"
    suite_host(ctx, 1, 6 if ctx.quick() else 9)
    suite_wmethod(ctx, "host", variants=("default", "latin1"))     # every byte in every state of the host-name automaton (label / name counters), x W
    suite_wmethod(ctx, "host", optbits=4)
    suite_recorded(ctx, *((800, 600, 80) if ctx.quick() else (6000, 5000, 300)))
    return finish(ctx, "model_checking",
                  "TLC enumerates host names: all strings over {letter,digit,'-','.','_',other} up to MaxLen, families for label "
                  "length 0..70 in each position, total length 240..260 with/without root dot, every byte value at each label position; "
                  "M |= P on each; each replayed into is_ascii_domain (2 placements) and is_utf8_domain")


def c05(ctx):
    suite_ip(ctx, 2, 0)
    suite_ip(ctx, 1, 5 if ctx.quick() else 8)
    suite_wmethod(ctx, "ip")                   # structure bytes (thorough: every byte) in every state of the literal automaton, x W
    return finish(ctx, "model_checking",
                  "TLC enumerates domain parts '[...]': bracket content over {1,0,2,5,a,g,':','.'} up to MaxLen and families "
                  "(octet values 0..300 per position, IPv6 shapes a/b groups x widths x '::' x v4 tail x stray colons x 8 tags, "
                  "suffix bytes after ']'); decision sandwiched between LiteralS and LiteralN, family flag pinned; replayed "
                  "through is_{822,5321,5322,6531}_email with tld_check off and on")


def suite_sweep(ctx, part, full=False, optbits=0, variants=("default",)):
    r = tlc_ok(ctx, "MC_LocalSweep", cfg({"Part": part, "Full": "TRUE" if full else "FALSE", "OptBits": optbits, "EmitCli": "FALSE"}))
    sample_vectors(ctx, r["out"])
    for var in variants:
        b = build(ctx, "default" if var == "latin1" else var, optbits)
        # "latin1": the default build called from a process that has switched to a single-byte locale (bytes >= 0x80 are letters there)
        res = replay(ctx, b, r["out"], "sweep-p%d-o%d-%s" % (part, optbits, var), env=vlib.latin1_locale(ctx) if var == "latin1" else None)
        crash_violation(ctx, res, ["C06", ctx.prop])
        for v in res["viol"]:
            classify_local(ctx, v, optbits)
        drift_to_c15(ctx, res)


def suite_wmethod(ctx, what="local", optbits=0, variants=("default",)):
    """automata-conformance suites derived by TLC from layer P (MC_LocalW / MC_HostW / MC_IpW): state cover by signature over a
    characterising set W (VIEW), then access string x every byte x W executed on the real validators"""
    tier = 1 if ctx.quick() else 2
    if what == "local":
        mod, consts, need = "MC_LocalW", "  OptBits = %d\n  MaxDepth = 12\n  EmitCli = FALSE\n" % optbits, 40
    elif what == "host":
        mod, consts, need = "MC_HostW", "  OptBits = %d\n  MaxDepth = 12\n  Tier = %d\n" % (optbits, tier), 30
    else:
        mod, consts, need = "MC_IpW", "  MaxDepth = 45\n  Tier = %d\n" % tier, 120
    r = tlc_ok(ctx, mod, "CONSTANTS\n" + consts + "INIT Init\nNEXT Next\nVIEW View\nINVARIANT Inv\nCHECK_DEADLOCK FALSE\n", heap="10g")
    acc = sum(1 for l in open(r["out"], errors="replace") if "ACCESS" in l)
    ctx.cov.setdefault("wmethod", []).append({"module": mod, "optbits": optbits, "access_strings": acc})
    if acc < need:
        raise Infra("%s found only %d access strings: the characterising set no longer separates the grammar's states" % (mod, acc))
    sample_vectors(ctx, r["out"])
    for var in variants:
        b = build(ctx, "default" if var == "latin1" else var, optbits)
        res = replay(ctx, b, r["out"], "wmethod-%s-o%d-%s" % (what, optbits, var), env=vlib.latin1_locale(ctx) if var == "latin1" else None)
        crash_violation(ctx, res, ["C06", ctx.prop])
        for v in res["viol"]:
            if what == "local":
                classify_local(ctx, v, optbits)
            elif what == "host":
                classify_host(ctx, v, optbits)
            else:
                classify_ip(ctx, v)
        drift_to_c15(ctx, res)


def c02(ctx):
    if ctx.quick():
        suite_local(ctx, 2, 5)
    else:
        suite_local(ctx, 1, 6)      # 15 symbols, 12.2 M local parts
        suite_local(ctx, 2, 7)      # 10 symbols, 11.1 M local parts
    suite_sweep(ctx, 1, variants=("default", "uchar", "latin1"))   # also where plain char is unsigned (ARM, PowerPC), and when the
    # calling process has switched to a single-byte locale in which bytes >= 0x80 are letters
    suite_wmethod(ctx, "local", variants=("default", "latin1"))    # every byte in every state of the grammar automaton, x W
    suite_email(ctx, 2, 0)                                 # the same rules in front of every kind of domain
    suite_recorded(ctx, *((600, 900, 120) if ctx.quick() else (5000, 8000, 400)))
    return finish(ctx, "model_checking",
                  "TLC enumerates every local part of <= MaxLen symbols over the alphabet (one state each), checks M |= P "
                  "and prints the vector; each vector is executed on the real scanners in 2 guard-page placements; "
                  "non-trivial = (input, mode) pairs whose decision layer P pins")


def c03(ctx):
    if ctx.quick():
        suite_local(ctx, 4, 6)
        suite_local(ctx, 3, 4)
    else:
        suite_local(ctx, 4, 8)      # 7 symbols, 6.7 M local parts
        suite_local(ctx, 3, 6)      # 12 chunks, 3.3 M local parts
        suite_local(ctx, 1, 5)
    suite_sweep(ctx, 1, variants=("default", "uchar"))
    suite_sweep(ctx, 2, full=not ctx.quick(), variants=("default", "uchar", "latin1"))
    suite_wmethod(ctx, "local")
    suite_email(ctx, 2, 0)
    suite_recorded(ctx, *((600, 900, 120) if ctx.quick() else (5000, 8000, 400)))
    return finish(ctx, "model_checking",
                  "TLC enumerates local parts over ASCII structure characters and 2/3/4-byte and ill-formed UTF-8 chunks; "
                  "decision compared with well-formed-UTF-8 + RFC 5321 grammar over code points")


PROPS = {"C01": c01, "C02": c02, "C03": c03, "C04": c04, "C05": c05, "C07": c07, "C08": c08, "C09": c09, "C10": c10, "C11": c11,
         "C06": c06, "C12": c12, "C13": c13, "C14": c14, "C15": c15, "C16": c16, "C17": c17, "C18": c18, "C19": c19, "C20": c20}


def replay_file(ctx, path):
    d = json.load(open(path))
    ctx.log("replay of %s: re-running the check that produced it" % path)
    return PROPS[d["property"]](ctx)
