"""Per-property checks.  Each check = TLC runs over spec/ (model checking M |= P and
vector generation), replay of the vectors into the code built from /repo's working
tree (direction A), recorded executions validated by TLC (direction B)."""
import json, os, subprocess, sys
import vlib
from vlib import Infra, tlc_ok, replay, build, validate_trace, add_violation, add_sample, finish

ASCII_MODES = (822, 5321, 5322)


def cfg(consts, inv="Inv", extra=""):
    c = "CONSTANTS\n" + "".join("  %s = %s\n" % kv for kv in consts.items())
    return c + "INIT Init\nNEXT Next\nINVARIANT %s\nCHECK_DEADLOCK FALSE\n%s" % (inv, extra)


def sample_vectors(ctx, path, k=3, prefix='"['):
    n = 0
    with open(path, errors="replace") as f:
        for line in f:
            if line.startswith(prefix):
                n += 1
                if n in (50, 5000, 50000) or (n == 1 and k):
                    add_sample(ctx, line.strip().strip('"'))


def crash_violation(ctx, res, props_):
    if res["crash"]:
        for p in props_:
            add_violation(ctx, p, "crash/abort/hang while executing a vector (exit %s)" % res["crash"]["exit"],
                          {"build": res["build"], "current": res["crash"]["current"][-1500:],
                           "stderr": res["crash"]["stderr"][-1500:]})
        return True
    return False


# ---------------------------------------------------------------- local parts

def classify_local(ctx, v, optbits):
    case = {"kind": "local", "mode": v["mode"], "opts": v["opts"], "in": v["in"],
            "text": vlib.bytes_to_text(v["in"]), "expected": v["exp"], "got": v["got"], "model": v["model"]}
    if v["what"] == "decision":
        if optbits:
            add_violation(ctx, "C17", "local-part decision under build options %d" % optbits, case)
        elif v["mode"] == 6531:
            add_violation(ctx, "C03", "6531 local-part decision", case)
        else:
            add_violation(ctx, "C02", "ASCII local-part decision", case)
        if v["exp"] == 1:   # rejected although valid: the reported local-part error is also untrue (C15)
            add_violation(ctx, "C15", "local-part error reported for a valid local part", case)
    elif v["what"].startswith("placement"):
        add_violation(ctx, "C06", "result depends on what lies outside the string", case)
    elif v["what"] in ("cross-mode", "cross-inclusion"):
        add_violation(ctx, "C12", "local-part scanners disagree: " + v["what"], case)


def suite_local(ctx, alpha, maxlen, optbits=0, variants=("default",)):
    r = tlc_ok(ctx, "MC_Local", cfg({"MaxLen": maxlen, "AlphaId": alpha, "OptBits": optbits}))
    sample_vectors(ctx, r["out"])
    for var in variants:
        b = build(ctx, var, optbits)
        res = replay(ctx, b, r["out"], "local-a%d-l%d-o%d" % (alpha, maxlen, optbits))
        crash_violation(ctx, res, ["C06", ctx.prop])
        for v in res["viol"]:
            classify_local(ctx, v, optbits)
        if res["summary"].get("viol", 0) > len(res["viol"]):
            ctx.log("note: %d violations, first %d kept" % (res["summary"]["viol"], len(res["viol"])))
        # drift: outcomes the model did not predict are validated against layer P's truth predicates
        n, bad = validate_trace(ctx, "Trace_Func", res["drift_path"])
        for (ln, ev, note) in bad:
            case = {"kind": ev["e"], "mode": ev.get("mode"), "opts": ev.get("o"), "in": ev["in"],
                    "text": vlib.bytes_to_text(ev["in"]), "rc": ev["rc"], "model": ev.get("mrc")}
            add_violation(ctx, "C15", "reported reason does not hold of the input", case)
    return r


# ---------------------------------------------------------------- host names, literals

def drift_to_c15(ctx, res, kinds=None):
    """unpredicted outcomes -> TLC validates them against the truth predicates of layer P"""
    if not os.path.exists(res["drift_path"]):
        return
    n, bad = validate_trace(ctx, "Trace_Func", res["drift_path"])
    for (ln, ev, note) in bad:
        case = {"kind": ev["e"], "mode": ev.get("mode"), "opts": ev.get("o"), "in": ev["in"],
                "text": vlib.bytes_to_text(ev["in"]), "rc": ev["rc"], "model": ev.get("mrc")}
        add_violation(ctx, "C15", "reported reason does not hold of the input", case)


def classify_host(ctx, v, optbits):
    case = {"kind": "host", "mode": v["mode"], "opts": v["opts"], "in": v["in"], "text": vlib.bytes_to_text(v["in"]),
            "expected": v["exp"], "got": v["got"], "model": v["model"], "what": v["what"]}
    if v["what"].startswith("placement"):
        add_violation(ctx, "C06", "result depends on what lies outside the string", case)
    elif optbits:
        add_violation(ctx, "C17", "host-name decision under build options %d" % optbits, case)
    else:
        add_violation(ctx, "C04", "host-name " + v["what"], case)
        if v["exp"] == 1 and v["what"] == "decision":
            add_violation(ctx, "C15", "domain error reported for a valid host name", case)


def suite_host(ctx, gen, maxlen, optbits=0, variants=("default",)):
    r = tlc_ok(ctx, "MC_Host", cfg({"MaxLen": maxlen, "Gen": gen, "OptBits": optbits}))
    sample_vectors(ctx, r["out"])
    for var in variants:
        b = build(ctx, var, optbits)
        res = replay(ctx, b, r["out"], "host-g%d-l%d-o%d" % (gen, maxlen, optbits))
        crash_violation(ctx, res, ["C06", ctx.prop])
        for v in res["viol"]:
            classify_host(ctx, v, optbits)
        drift_to_c15(ctx, res)


def classify_ip(ctx, v):
    case = {"kind": v["kind"], "mode": v["mode"], "tld_check": v["opts"], "in": v["in"],
            "text": vlib.bytes_to_text(v["in"]), "expected": v["exp"], "got": v["got"], "model": v["model"], "what": v["what"]}
    w = v["what"]
    if w == "decision":
        add_violation(ctx, "C05", "address-literal decision", case)
        add_violation(ctx, "C01", "address decision (literal domain)", case)
    elif w == "family flag":
        add_violation(ctx, "C05", "address family reported", case)
        add_violation(ctx, "C16", "result flag does not match the form of the domain", case)
    elif w == "flag set on rejection":
        add_violation(ctx, "C16", "flag set although the address is invalid", case)
    elif w == "mode dependent":
        add_violation(ctx, "C12", "literal judged differently across modes", case)
    elif w == "mode/tld_check dependent":
        add_violation(ctx, "C08", "literal decision depends on tld_check", case)


def suite_ip(ctx, gen, maxlen, variants=("default",)):
    r = tlc_ok(ctx, "MC_Ip", cfg({"MaxLen": maxlen, "Gen": gen}))
    sample_vectors(ctx, r["out"])
    for var in variants:
        b = build(ctx, var, 0)
        res = replay(ctx, b, r["out"], "ip-g%d-l%d" % (gen, maxlen))
        crash_violation(ctx, res, ["C06", ctx.prop])
        for v in res["viol"]:
            classify_ip(ctx, v)
        drift_to_c15(ctx, res)


# ---------------------------------------------------------------- whole addresses

def classify_email(ctx, v, optbits=0):
    w = v["what"]
    tld = v["opts"] % 2 if w not in ("decision", "decision-tld") else (1 if w == "decision-tld" else 0)
    case = {"kind": "email", "mode": v["mode"], "tld_check": tld, "in": v["in"], "text": vlib.bytes_to_text(v["in"]),
            "expected": v["exp"], "got": v["got"], "model": v["model"], "what": w}
    if optbits:
        add_violation(ctx, "C17", "address outcome under build options %d: %s" % (optbits, w), case)
        return
    if w == "decision":
        add_violation(ctx, "C01", "address decision", case)
    elif w == "decision-tld":
        exp, got = v["exp"], v["got"]
        if exp == 8 or got == 8:
            add_violation(ctx, "C09", "reserved-domain classification", case)
        elif exp in range(1, 10) or exp in (-23, -26) or got in range(1, 10):
            add_violation(ctx, "C07", "TLD classification", case)
        else:
            add_violation(ctx, "C01", "address decision (tld_check on)", case)
    elif w in ("flag", "record"):
        add_violation(ctx, "C16", "result record: " + w, case)
    elif w in ("composition", "composition-idn", "eav_setup refused a defined mode"):
        add_violation(ctx, "C01", "high-level call differs from the composition of the public validators: " + w, case)
    elif w in ("eav-level", "eav-message"):
        add_violation(ctx, "C01", "eav_is_email differs from the per-mode function: " + w, case)
        add_violation(ctx, "C15", "eav_is_email return/errcode/message inconsistent: " + w, case)
    elif w.startswith("cross"):
        add_violation(ctx, "C12", "modes disagree: " + w, case)


def email_drift(ctx, res):
    if not os.path.exists(res["drift_path"]):
        return
    n, bad = validate_trace(ctx, "Trace_Func", res["drift_path"])
    for (ln, ev, note) in bad:
        case = {"kind": ev["e"], "mode": ev.get("mode"), "tld_check": ev.get("tld"), "in": ev["in"],
                "text": vlib.bytes_to_text(ev["in"]), "rc": ev["rc"], "fl": ev.get("fl"), "idn": ev.get("idn"),
                "conv_code": ev.get("cc"), "conv_out": ev.get("co"), "model": ev.get("mrc")}
        rc = ev["rc"]
        if ev.get("mode") == 6531 and "cc" in ev:
            add_violation(ctx, "C10", "mode 6531 outcome does not follow from the converter's answer", case)
            if ev.get("cc", 0) != 0:
                add_violation(ctx, "C19", "IDN failure not reported as such", case)
        if rc is not None and rc > 0:
            add_violation(ctx, "C07", "TLD class differs from the table", case)
        add_violation(ctx, "C15", "reported reason does not hold of the input", case)
        add_violation(ctx, "C16", "result record inconsistent", case)


def run_email_vectors(ctx, r, tag, optbits=0, variants=("default",)):
    sample_vectors(ctx, r["out"])
    for var in variants:
        b = build(ctx, var, optbits)
        res = replay(ctx, b, r["out"], tag)
        crash_violation(ctx, res, ["C06", ctx.prop])
        for v in res["viol"]:
            if v["kind"] == "email":
                classify_email(ctx, v, optbits)
        email_drift(ctx, res)


def suite_email(ctx, gen, maxlen, optbits=0, variants=("default",)):
    r = tlc_ok(ctx, "MC_Email", cfg({"MaxLen": maxlen, "Gen": gen, "OptBits": optbits}))
    run_email_vectors(ctx, r, "email-g%d-l%d-o%d" % (gen, maxlen, optbits), optbits, variants)


def suite_tld(ctx, part, rowmod=8, rowrem=None, variants=("default",)):
    if rowrem is None:
        rowrem = ctx.seed % rowmod
    r = tlc_ok(ctx, "MC_Tld", cfg({"Part": part, "RowMod": rowmod, "RowRem": rowrem}))
    run_email_vectors(ctx, r, "tld-p%d-%d-%d" % (part, rowmod, rowrem), 0, variants)


def c01(ctx):
    suite_email(ctx, 2, 0)
    suite_email(ctx, 1, 5 if ctx.quick() else 7)
    return finish(ctx, "model_checking",
                  "TLC enumerates addresses: all strings over {a . @ \" [ ] 1 :} up to MaxLen and families (local-part pool x domain pool, "
                  "local parts of 58..70 octets, several '@'); per (mode, tld_check) layer P pins decision/code/flag; each vector is "
                  "executed through is_*_email, compared with the composition of the public per-part validators on L and D, and through "
                  "eav_init/eav_setup/eav_is_email")


def c07(ctx):
    suite_tld(ctx, 1, 8 if ctx.quick() else 1, None if ctx.quick() else 0)
    return finish(ctx, "model_checking",
                  "every row of data/punycode.csv (of the tree under test) in lower/UPPER/mixed case behind 1-4 labels, as single label, "
                  "in U-label form; near misses (every proper prefix and suffix, single substitutions, one-character extensions, listed "
                  "label first with unlisted last) of the selected rows (quick: one row in 8 chosen by the seed; thorough: all); "
                  "class pinned by TldClassP; four modes, tld_check off and on")


def c09(ctx):
    suite_tld(ctx, 2)
    return finish(ctx, "model_checking",
                  "reserved names (test, example, invalid, localhost, onion, example.com/net/org) behind 0-3 labels with every length 1..63 "
                  "in each position, three case patterns, root dot, and every one-edit neighbour (substitution, deletion, insertion) of "
                  "each reserved name; class pinned by IsReserved; four modes")


def c12(ctx):
    q = ctx.quick()
    suite_local(ctx, 2, 5 if q else 6)
    suite_email(ctx, 2, 0)
    suite_email(ctx, 1, 5 if q else 7)
    suite_ip(ctx, 2, 0)
    suite_tld(ctx, 2)
    if not q:
        suite_tld(ctx, 1, 4)
    return finish(ctx, "model_checking",
                  "relations evaluated on the observed results of the four modes for the same input (the spec marks the inputs to "
                  "which each relation applies): identical code for pure-ASCII quote-free local parts (6531: or IDN error), "
                  "5321-accept implies 822-accept, identical domain verdict/class/flags across the ASCII modes; inputs = all local "
                  "parts and addresses enumerated by MC_Local / MC_Email / MC_Ip / MC_Tld")


def c16(ctx):
    q = ctx.quick()
    suite_email(ctx, 2, 0)
    suite_email(ctx, 1, 5 if q else 7)
    suite_ip(ctx, 2, 0)
    suite_tld(ctx, 2)
    suite_tld(ctx, 1, 16 if q else 2)
    return finish(ctx, "model_checking",
                  "result record of every enumerated address in four modes x tld_check: at most one flag, exactly one on acceptance and "
                  "equal to the form of the domain, none when a half is syntactically invalid, rc = 0 / class / negative as pinned by "
                  "EmailP; unpredicted records validated by TLC (Trace_Func.EmailOk)")


def c15(ctx):
    q = ctx.quick()
    suite_local(ctx, 2, 5 if q else 6)
    suite_local(ctx, 4, 5 if q else 6)
    suite_host(ctx, 2, 0)
    suite_host(ctx, 1, 5 if q else 7)
    suite_ip(ctx, 2, 0)
    suite_email(ctx, 2, 0)
    suite_email(ctx, 1, 5 if q else 6)
    suite_tld(ctx, 2)
    suite_tld(ctx, 1, 16 if q else 4)
    return finish(ctx, "model_checking",
                  "every code the model returns satisfies its truth predicate (TLC invariant on every enumerated state); every observed code "
                  "either equals the model's or is validated by TLC against the truth predicates (drift trace); eav_is_email return value, "
                  "errcode and message checked against the result code on every address vector")


def c04(ctx):
    suite_host(ctx, 2, 0)
    suite_host(ctx, 1, 6 if ctx.quick() else 8)
    return finish(ctx, "model_checking",
                  "TLC enumerates host names: all strings over {letter,digit,'-','.','_',other} up to MaxLen, families for label "
                  "length 0..70 in each position, total length 240..260 with/without root dot, every byte value at each label position; "
                  "M |= P on each; each replayed into is_ascii_domain (2 placements) and is_utf8_domain")


def c05(ctx):
    suite_ip(ctx, 2, 0)
    suite_ip(ctx, 1, 5 if ctx.quick() else 7)
    return finish(ctx, "model_checking",
                  "TLC enumerates domain parts '[...]': bracket content over {1,0,2,5,a,g,':','.'} up to MaxLen and families "
                  "(octet values 0..300 per position, IPv6 shapes a/b groups x widths x '::' x v4 tail x stray colons x 8 tags, "
                  "suffix bytes after ']'); decision sandwiched between LiteralS and LiteralN, family flag pinned; replayed "
                  "through is_{822,5321,5322,6531}_email with tld_check off and on")


def c02(ctx):
    if ctx.quick():
        suite_local(ctx, 2, 5)
    else:
        suite_local(ctx, 1, 5)
        suite_local(ctx, 2, 6)
    return finish(ctx, "model_checking",
                  "TLC enumerates every local part of <= MaxLen symbols over the alphabet (one state each), checks M |= P "
                  "and prints the vector; each vector is executed on the real scanners in 2 guard-page placements; "
                  "non-trivial = (input, mode) pairs whose decision layer P pins")


def c03(ctx):
    if ctx.quick():
        suite_local(ctx, 4, 6)
        suite_local(ctx, 3, 4)
    else:
        suite_local(ctx, 4, 7)
        suite_local(ctx, 3, 5)
        suite_local(ctx, 1, 5)
    return finish(ctx, "model_checking",
                  "TLC enumerates local parts over ASCII structure characters and 2/3/4-byte and ill-formed UTF-8 chunks; "
                  "decision compared with well-formed-UTF-8 + RFC 5321 grammar over code points")


PROPS = {"C01": c01, "C02": c02, "C03": c03, "C04": c04, "C05": c05, "C07": c07, "C09": c09,
         "C12": c12, "C15": c15, "C16": c16}


def replay_file(ctx, path):
    d = json.load(open(path))
    ctx.log("replay of %s: re-running the check that produced it" % path)
    return PROPS[d["property"]](ctx)
