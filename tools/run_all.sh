#!/bin/sh
# runs every registered check (quick by default) on /repo, two at a time; prints one line per check
TIER=${1:-quick}
cd /verif || exit 2
ids=$(python3 -c "import json;print(' '.join(c['property_id'] for c in json.load(open('MANIFEST.json'))['checks']))")
run() { s=$(date +%s); ./check $1 --tier $TIER > /tmp/verif-runall-$1.out 2> /tmp/verif-runall-$1.err; rc=$?; e=$(date +%s); echo "$1 exit=$rc $((e-s))s $(grep -E '^(VIOLATION|KNOWN|OK)' /tmp/verif-runall-$1.out | head -1)"; }
set -- $ids
while [ $# -gt 0 ]; do
  run $1 & 
  if [ $# -gt 1 ]; then run $2 & shift; fi
  shift
  wait
done
rm -f /tmp/verif-runall-*.out /tmp/verif-runall-*.err
