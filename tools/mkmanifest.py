#!/usr/bin/env python3
"""Regenerates MANIFEST.json from the table below (kept in one place so it is always valid)."""
import json, os, sys
sys.path.insert(0, os.path.dirname(os.path.abspath(__file__)))
V = os.path.dirname(os.path.dirname(os.path.abspath(__file__)))

MC = "model_checking"
CHECKS = {
 "C02": (MC, "bounded-exhaustive TLC enumeration of local parts (M |= P checked on every state), per-byte sweeps, and an automata-conformance (W-method) suite whose state cover TLC derives from layer P through a VIEW + replay of every state as a vector into is_822/5321/5322_local under guard pages (also -funsigned-char build, Latin-1 locale) + TLC validation of unpredicted outcomes",
         "TLC enumerates all local parts up to a length bound over an alphabet of structure characters; the declarative grammar (layer P) pins accept/reject for each, the real scanners must agree on every vector. Bounded, not a proof: assurance is exhaustive inside the bound.",
         "Trusted: TLC, the hand-written grammar in spec/LocalPart.tla (layer P), the replay driver's comparison. Bound: alphabet and length given in the evidence."),
 "C03": (MC, "same as C02 over UTF-8 chunk alphabets (2/3/4-byte, truncated, surrogate, overlong) for is_6531_local",
         "Decision of is_6531_local compared on every enumerated input with: well-formed UTF-8 (Unicode table 3-7) and the RFC 5321 grammar over code points.",
         "Trusted: TLC, spec/Utf8.tla + LocalPart.tla layer P, replay driver."),
 "C01": (MC, "TLC enumeration of addresses + replay through is_*_email, composition of public validators, and eav_init/eav_setup/eav_is_email",
         "Every enumerated address (bounded-exhaustive over structure characters, plus pool and length families) has its decision, code and flag pinned by layer P per mode; the real per-mode functions, the composition of the public part validators and the high-level object must all agree.",
         "Trusted: TLC, spec/Email.tla layer P, replay driver; mode 6531 host names are decided relative to the recorded answers of libidn2 (environment)."),
 "C04": (MC, "TLC enumeration of host names (exhaustive short strings + 63/253 length families + per-byte sweeps + W-method suite derived from layer P over label/name counters) replayed into is_ascii_domain and is_utf8_domain",
         "IsHostname (layer P, Split-based, no recursion) pins accept/reject for every enumerated domain; is_ascii_domain must agree exactly, is_utf8_domain must never accept an all-ASCII domain that violates the rules.",
         "Trusted: TLC, spec/Hostname.tla layer P, replay driver. 6531: relative to libidn2's conversion."),
 "C05": (MC, "TLC enumeration of bracketed domains (content alphabet + octet/IPv6-shape/tag/suffix families + W-method suite derived from layer P: 188 states) with necessary/sufficient sandwich, replayed through the four is_*_email",
         "LiteralS => accept => LiteralN and the family flag are checked on every enumerated literal in all modes with tld_check off/on; the band between N and S is executed but not judged.",
         "Trusted: TLC, spec/IpLiteral.tla layer P (RFC 4291 / RFC 5321 4.1.3 transcribed), replay driver."),
 "C07": (MC, "TLC enumeration over the CSV-derived table (all rows x case x depth, near misses) replayed as addresses in four modes",
         "TldData is generated from data/punycode.csv of the tree under test; TldClassP pins the class of every generated domain; U-label spellings are validated through the recorded converter answer.",
         "Trusted: TLC, CSV extraction (tools/gen_tlddata.py: CSV syntax only), spec/Tld.tla, replay driver, libidn2 for U-labels."),
 "C09": (MC, "TLC enumeration of reserved names behind labels of every length 1..63, case patterns and one-edit neighbours, replayed as addresses in four modes",
         "IsReserved (whole-label, last one/two labels) pins class 'special' exactly; SpecialRc (the code's algorithm) is model-checked against it and the real is_special_domain is exercised through is_*_email.",
         "Trusted: TLC, spec/Special.tla, replay driver."),
 "C12": (MC, "relational check on observed four-mode results for every TLC-enumerated local part / address (the spec marks where each relation applies)",
         "Cross-mode relations need no oracle: they are evaluated on the observed outcomes themselves; TLC additionally checks them on the machines (layer M).",
         "Trusted: TLC, replay driver's relation code."),
 "C15": (MC, "truth predicates of layer P as TLC invariants on M, plus TLC validation of every observed outcome the model did not predict; eav_is_email ret/errcode/message consistency on every vector",
         "A code is accepted only if its truth predicate holds of the input (generous necessary conditions, so a different but true reason is not an alarm).",
         "Trusted: TLC, truth predicates LTruth/HTruth/ITruth/EmailOk, replay driver."),
 "C16": (MC, "result-record pins (flags, rc) in every address vector, four modes x tld_check; unpredicted records validated by TLC",
         "At most one flag, exactly the form flag on acceptance, none when syntactically invalid, rc 0 / class / negative.",
         "Trusted: TLC, spec/Email.tla, replay driver. EAV_EXTRA strings: see evidence."),
 "C06": (MC, "spec-generated vectors executed under guard pages, ASan+UBSan, valgrind-memcheck and --wrap allocation accounting; TLC model of field definedness / heap balance / rc range; callgrind instruction counts at n,2n,4n",
         "The specification decides what is executed (bounded-exhaustive vectors, structural positions, 0..64 KiB adversarial shapes, all object histories of length L) and the modelled part (no read of an undefined eav_t field, heap balance, abort unreachable, linear step count); undefined behaviour and out-of-bounds accesses of the compiled code are observed by the monitors on those executions.",
         "Monitors, not TLC, observe UB/out-of-bounds (DESIGN.md section 9). Trusted: guard-page placement code, ASan/UBSan/valgrind, callgrind determinism. The IDN converter's own work is excluded from the linearity measurement."),
 "C08": (MC, "complete TLC enumeration of (mask, result code, mode) and (mask, real address per class, mode, tld_check), replayed on eav_is_email (callback / real addresses); PolicyP = nine-arm switch checked in TLC",
         "The policy space is finite and is enumerated completely (exhaustive: true).",
         "Trusted: TLC, replay driver; the callback route uses the public callback fields of eav_t."),
 "C13": (MC, "TLC full state graph of the eav_t machine (history independence as action property, dispatch, heap, definedness) + replay of every history of length L on the real object with fresh-object comparison and --wrap accounting",
         "History independence is checked on the model for all histories of every length over the pool, and on the code for every history of L calls (each eav_is_email compared with a fresh object given the same settings - an oracle-free relation).",
         "Trusted: TLC, spec/Eav.tla, replay driver, wrap.c. Pool of 16 addresses; converter answers recorded from libidn2."),
 "C19": ("fault_enumeration", "converter as nondeterministic environment in TLC (31 libidn2 codes at every conversion of every history) + replay with the converter replaced at link time (--wrap), with and without output buffer",
         "Single faults at every position of every history of L calls exhaustively in the model and on the code; containment, message = idn2_strerror(code), no flag, heap balance, following validation equal to a fresh object.",
         "Trusted: TLC, wrap.c fault injector. Multi-fault sequences: every conversion in a history may fail independently."),
 "C17": (MC, "spec instantiated with the option record of each of the 8 Makefile builds; TLC vectors replayed on the matching build; Makefile defaults from make -pn",
         "What each option documents is part of layer P (AtomChar excludes the RFC 20 characters in mode 6531 only, QRules switches 6531 to the 5322 rules, LabelChar admits '_'); everything else is pinned exactly as in the default build.",
         "Trusted: TLC, layer P with options, the repository Makefile doing the -D mapping (it is the thing under test). Non-ASCII local parts under RFC6531_FOLLOW_RFC5322: ill-formed UTF-8 is pinned (rejected), and well-formed ones without quotes / blanks / controls as in the default build; quoted mixed content is left open."),
 "C18": (MC, "three backend source sets built via the Makefile against thin adapters over one converter; address/TLD/policy vectors and all object histories (with faults) replayed on each; TLC object model with CONSTANT Backend for context balance",
         "Same pins as the idn2 build on every vector; create/destroy balance of the idnkit context checked in TLC (ctx in {0,1}, zero after eav_free, never destroyed at 0) and by adapter counters after every replayed history.",
         "libidn and idnkit themselves are absent: the adapters (harness/adapters) stand for them, so nothing is claimed about those libraries, only about libeav's three source sets."),
 "C11": ("translation_validation", "the CSV is the specification (TldData + ClassOfRow in TLA+); compiled tld_list[], the outputs of `make auto` / `make tld-domains`, the converter's A-label of every raw.csv row, and the generator's output on a CSV with Retired / Not assigned manager variants validated row by row by TLC (Trace_Table) + line diff of regenerated vs shipped files",
         "Three programs (the compiled table seen through the exported symbol and is_tld, and the two generators re-run on the shipped CSVs) are checked against the CSV-derived specification on every row; regenerated artefacts are compared with the shipped ones line by line (timestamp aside).",
         "Trusted: TLC, tools/gen_tlddata.py (CSV syntax only), the Text::CSV stand-in harness/perl-shim (Text::CSV is not installed), Python's csv module."),
 "C14": (MC, "TLC over all interleavings of overlapping calls with the library's writable static storage extracted from the build's object files; TSan build + default build running the TLC address vectors in 4-16 threads with comparison to the single-threaded run",
         "Design claim (no shared writable cell) is checked against the actual object files; data races in the compiled code are observed by ThreadSanitizer on spec-generated executions, whatever the schedule actually taken; outcomes compared with the sequential run.",
         "Races as such are observed by TSan, not decided by TLC (DESIGN.md section 9). Trusted: objdump symbol tables, TSan, the threads driver."),
 "C20": (MC, "TLC enumerates files (sequences of line shapes x terminators); spec/Cli.tla pins line structure, comment lines, trimming and echo; the real eav binary is run on every file (default + ASan/UBSan) and compared; verdict/message compared with the library on the pinned address",
         "Every file of at most MaxLines lines over ~85 line shapes, command lines of 2-3 files, and two generated files (262 000 local-part suite lines, all UTF-8 candidates) whose verdicts are compared with the library linked alone; per line the spec says whether it is a comment, which bytes reach eav_is_email and what is echoed; exit status, stdout structure, verdict and message are compared.",
         "Trusted: TLC, spec/Cli.tla, tools/cli.py (output parser), the library oracle run through the replay driver. Lines with NUL: the spec follows the tool's C-string reading (not pinned by the property beyond robustness)."),
 "C10": (MC, "TLC-enumerated UTF-8 domains (8 scripts, IDN TLDs of the table, IDNA violations); relational replay U-label vs converter-produced A-label in mode 6531 and the ASCII modes; every outcome validated by TLC against the recorded converter answer",
         "The property is relational and environment-dependent: what is decided is the library's treatment given the converter's answers (recorded from the same libidn2), not IDNA2008 itself.",
         "Trusted: TLC, libidn2 as the reference converter, replay driver. IDNA2008 validity tables are not modelled; the violation list is a fixed sample of the classes the statement names."),
}
NOT_YET = {}

def main():
    props = [json.loads(l) for l in open(os.path.join(V, "properties.jsonl"))]
    checks = []
    na = []
    for p in props:
        i = p["id"]
        if i in CHECKS:
            lvl, tech, text, note = CHECKS[i]
            checks.append({"property_id": i, "quick_cmd": "./check %s --tier quick" % i,
                           "thorough_cmd": "./check %s --tier thorough" % i,
                           "evidence_file": "/verif/evidence/%s.json" % i,
                           "replay_cmd_template": "./check %s --replay {path}" % i,
                           "engine": "tlc+replay",
                           "level_claimed": {"category": lvl, "text": text, "design_ref": "DESIGN.md section 6 (%s)" % i},
                           "level_note": note, "technique": tech})
        else:
            na.append({"property_id": i, "reason": NOT_YET.get(i, "check not built yet in this revision (planned, see DESIGN.md section 6)")})
    m = {"version": 1,
         "setup_cmd": "./setup.sh",
         "hooks": {"guard": "LIBEAV_VERIF", "enable": "no source hooks are needed: all observed state is public (eav_t, eav_result_t, tld_list, return values); allocation and converter events come from link-time --wrap",
                   "baseline_off_cmd": "/verif/tools/baseline.sh", "source_commits": [], "add_only": True},
         "engines": [{"name": "tlc+replay", "path": "/verif/check", "serves_properties": sorted(CHECKS),
                      "kind_free_text": "TLA+ spec (spec/*.tla) model-checked by TLC; TLC-generated vectors replayed into the code built from /repo's working tree; recorded executions validated by TLC trace specs"}],
         "checks": checks, "not_applicable": na,
         "notes": "All checks rebuild /repo's working tree in a scratch copy (VERIF_REPO overrides the tree). Exit 2 = machinery failure, never a verdict."}
    json.dump(m, open(os.path.join(V, "MANIFEST.json"), "w"), indent=1)
    print("MANIFEST.json: %d checks, %d not_applicable" % (len(checks), len(na)))

main()
