#!/usr/bin/env python3
"""Regenerates MANIFEST.json from the table below (kept in one place so it is always valid)."""
import json, os, sys
sys.path.insert(0, os.path.dirname(os.path.abspath(__file__)))
V = os.path.dirname(os.path.dirname(os.path.abspath(__file__)))

MC = "model_checking"
CHECKS = {
 "C02": (MC, "bounded-exhaustive TLC enumeration of local parts (M |= P checked on every state) + replay of every state as a vector into is_822/5321/5322_local under guard pages + TLC validation of unpredicted outcomes",
         "TLC enumerates all local parts up to a length bound over an alphabet of structure characters; the declarative grammar (layer P) pins accept/reject for each, the real scanners must agree on every vector. Bounded, not a proof: assurance is exhaustive inside the bound.",
         "Trusted: TLC, the hand-written grammar in spec/LocalPart.tla (layer P), the replay driver's comparison. Bound: alphabet and length given in the evidence."),
 "C03": (MC, "same as C02 over UTF-8 chunk alphabets (2/3/4-byte, truncated, surrogate, overlong) for is_6531_local",
         "Decision of is_6531_local compared on every enumerated input with: well-formed UTF-8 (Unicode table 3-7) and the RFC 5321 grammar over code points.",
         "Trusted: TLC, spec/Utf8.tla + LocalPart.tla layer P, replay driver."),
}
NOT_YET = {}

def main():
    props = [json.loads(l) for l in open(os.path.join(V, "properties.jsonl"))]
    checks = []
    na = []
    for p in props:
        i = p["id"]
        if i in CHECKS:
            lvl, tech, text, note = CHECKS[i]
            checks.append({"property_id": i, "quick_cmd": "./check %s --tier quick" % i,
                           "thorough_cmd": "./check %s --tier thorough" % i,
                           "evidence_file": "/verif/evidence/%s.json" % i,
                           "replay_cmd_template": "./check %s --replay {path}" % i,
                           "engine": "tlc+replay",
                           "level_claimed": {"category": lvl, "text": text, "design_ref": "DESIGN.md section 6 (%s)" % i},
                           "level_note": note, "technique": tech})
        else:
            na.append({"property_id": i, "reason": NOT_YET.get(i, "check not built yet in this revision (planned, see DESIGN.md section 6)")})
    m = {"version": 1,
         "setup_cmd": "./setup.sh",
         "hooks": {"guard": "LIBEAV_VERIF", "enable": "no source hooks are needed: all observed state is public (eav_t, eav_result_t, tld_list, return values); allocation and converter events come from link-time --wrap",
                   "baseline_off_cmd": "/verif/tools/baseline.sh", "source_commits": [], "add_only": True},
         "engines": [{"name": "tlc+replay", "path": "/verif/check", "serves_properties": sorted(CHECKS),
                      "kind_free_text": "TLA+ spec (spec/*.tla) model-checked by TLC; TLC-generated vectors replayed into the code built from /repo's working tree; recorded executions validated by TLC trace specs"}],
         "checks": checks, "not_applicable": na,
         "notes": "All checks rebuild /repo's working tree in a scratch copy (VERIF_REPO overrides the tree). Exit 2 = machinery failure, never a verdict."}
    json.dump(m, open(os.path.join(V, "MANIFEST.json"), "w"), indent=1)
    print("MANIFEST.json: %d checks, %d not_applicable" % (len(checks), len(na)))

main()
