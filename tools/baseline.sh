#!/bin/sh
# Runs the repository's own test-suite (make check) on a scratch copy of /repo's working tree
# with the verification guard OFF (no -DLIBEAV_VERIF) and compares the PASS: names with the
# pinned baseline (/root/.vp/BASELINE.json stable_pass).  Exit 0 iff every baseline name passes.
REPO=${VERIF_REPO:-/repo}
T=$(mktemp -d /tmp/verif-baseline-XXXXXX)
trap 'rm -rf "$T"' EXIT
rsync -a --exclude .git --exclude '*.o' --exclude '*.a' --exclude '*.so' --exclude '*.bin' --exclude bin/eav "$REPO/" "$T/r/"
cd "$T/r" || exit 2
make -j8 "$@" >"$T/build.log" 2>&1 || { tail -30 "$T/build.log"; echo "BUILD FAILED"; exit 1; }
make check "$@" >"$T/check.log" 2>&1
rc=$?
grep -a -E "^(PASS|FAIL): " "$T/check.log" | sort > "$T/lines.txt"
if [ -n "$BASELINE_DUMP" ]; then cp "$T/lines.txt" "$BASELINE_DUMP"; fi
if [ -n "$BASELINE_REF" ]; then cmp -s "$T/lines.txt" "$BASELINE_REF" && echo "PASS/FAIL lines identical to reference" || { echo "PASS/FAIL lines DIFFER from reference"; diff "$BASELINE_REF" "$T/lines.txt" | head -20; }; fi
python3 - "$T/check.log" "$rc" <<'PY'
import json, sys, re
log = open(sys.argv[1], errors="replace").read()
rc = int(sys.argv[2])
base = json.load(open("/root/.vp/BASELINE.json"))["stable_pass"]
passed = set()
for line in log.splitlines():
    m = re.match(r"PASS: (.*)$", line)
    if m: passed.add(m.group(1).rstrip())
# test binaries count as passed when make did not stop on them
for line in log.splitlines():
    m = re.match(r"(\./t-[\w-]+\.bin)", line.strip())
    if m and rc == 0: passed.add(m.group(1))
norm = lambda s: s.replace("\r", "\\r").replace("\n", "\\n").rstrip()
missing = [b for b in base if b.rstrip() not in passed and norm(b) not in passed]
npass = len(re.findall(r"^PASS: ", log, re.M)); nfail = len(re.findall(r"^FAIL: ", log, re.M))
print("make check exit=%d PASS lines=%d FAIL lines=%d baseline=%d missing=%d" % (rc, npass, nfail, len(base), len(missing)))
for m_ in missing[:20]: print("  missing:", repr(m_))
sys.exit(0 if rc == 0 and not missing else 1)
PY
