#!/bin/sh
# try_patch.sh PATCH CHECK... : applies PATCH to a scratch copy of /repo (never to /repo itself), verifies that it
# builds and that the repository's own test-suite still passes, then runs the given checks against the copy.
# Evidence and replay files of these runs go to a scratch directory, not to /verif/evidence.
PATCH=$1; shift
T=$(mktemp -d /tmp/verif-try-XXXXXX)
trap 'rm -rf "$T"' EXIT
rsync -a --exclude .git --exclude '*.o' --exclude '*.a' --exclude '*.so' --exclude '*.bin' --exclude bin/eav /repo/ "$T/repo/"
( cd "$T/repo" && patch -p1 -s < "$PATCH" ) || { echo "PATCH DOES NOT APPLY"; exit 3; }
if [ -z "$SKIP_BASELINE" ]; then
  VERIF_REPO="$T/repo" BASELINE_REF=/verif/notes/baseline_lines_pinned.txt /verif/tools/baseline.sh | tail -3
fi
mkdir -p "$T/ev" "$T/rp"
for c in "$@"; do
  VERIF_REPO="$T/repo" VERIF_EVIDENCE_DIR="$T/ev" VERIF_REPLAY_DIR="$T/rp" /verif/check "$c" --tier ${TIER:-quick} > "$T/out.txt" 2> "$T/err.txt"
  rc=$?
  echo "== $c exit=$rc: $(grep -E '^(VIOLATION|OK|KNOWN)' "$T/out.txt" | head -2 | tr '\n' ' ')"
  grep "violation:" "$T/err.txt" | head -${SHOW:-2} | cut -c1-400
  if [ $rc -eq 2 ]; then tail -5 "$T/err.txt"; fi
done
