#!/usr/bin/env python3
"""benign_eval.py PATCH [CHECK...]: applies a behaviour-preserving change to a scratch copy of /repo, verifies the
repository's suite still passes, and runs the checks that look at the touched files (or the given ones); prints
which, if any, raise an alarm (each alarm on such a change is a false alarm of the machinery to be analysed)."""
import json, os, re, shutil, subprocess, sys, tempfile
MAP = [(r"src/is_\d+_local|src/utf8_decode", ["C02", "C03", "C12", "C15", "C17", "C06", "C01"]),
       (r"src/is_ascii_domain", ["C04", "C17", "C15", "C01", "C06"]),
       (r"src/is_ipv4_ipv6|private_email\.h", ["C05", "C01", "C16", "C12", "C08", "C06", "C15"]),
       (r"is_\d+_email", ["C01", "C16", "C12", "C15", "C06"]),
       (r"eav\.c", ["C08", "C13", "C15", "C19", "C18", "C06"]),
       (r"is_tld|is_special_domain|auto_tld", ["C07", "C09", "C11", "C14", "C10", "C12"]),
       (r"is_utf8_domain", ["C10", "C19", "C07", "C06", "C18", "C04"]),
       (r"^bin/", ["C20"]), (r"Makefile", ["C17", "C18"]), (r"util/|data/", ["C11", "C07"]),
       (r"include/eav\.h|private\.h", ["C01", "C04", "C13", "C16"])]

def main():
    patch = sys.argv[1]
    files = re.findall(r"^\+\+\+ b/(\S+)", open(patch).read(), re.M)
    checks = sys.argv[2:]
    if not checks:
        for f in files:
            for pat, cs in MAP:
                if re.search(pat, f):
                    for c in cs:
                        if c not in checks:
                            checks.append(c)
    T = tempfile.mkdtemp(prefix="verif-benign-")
    try:
        r = os.path.join(T, "repo")
        subprocess.run("rsync -a --exclude .git --exclude '*.o' --exclude '*.a' --exclude '*.so' --exclude '*.bin' --exclude bin/eav /repo/ %s/" % r, shell=True, check=True)
        if subprocess.run("patch -p1 -s < %s" % patch, shell=True, cwd=r).returncode:
            print(json.dumps({"patch": patch, "applies": False})); return
        env = dict(os.environ); env.update({"VERIF_REPO": r, "BASELINE_REF": "/verif/notes/baseline_lines_pinned.txt"})
        b = subprocess.run(["/verif/tools/baseline.sh"], env=env, stdout=subprocess.PIPE, text=True)
        res = {"patch": os.path.basename(patch), "files": files, "suite_identical": b.returncode == 0 and "identical" in b.stdout, "checks": {}}
        for c in checks:
            env = dict(os.environ); env.update({"VERIF_REPO": r, "VERIF_EVIDENCE_DIR": os.path.join(T, "ev"), "VERIF_REPLAY_DIR": os.path.join(T, "rp")})
            p = subprocess.run(["/verif/check", c], stdout=subprocess.PIPE, stderr=subprocess.PIPE, text=True, env=env)
            res["checks"][c] = "ALARM" if p.returncode == 1 else "ok" if p.returncode == 0 else "INFRA"
            if p.returncode:
                res.setdefault("details", {})[c] = [l[:600] for l in p.stderr.splitlines() if "violation:" in l or "INFRA" in l][:3]
        res["alarms"] = [c for c, v in res["checks"].items() if v != "ok"]
        print(json.dumps(res))
    finally:
        shutil.rmtree(T, ignore_errors=True)
main()
