#!/usr/bin/env python3
"""seed_eval.py ID K [CHECK...] : confirms a seeded change produced by a sub-agent (/tmp/seed/<ID>-out/patchK.diff + demo)
in scratch copies of /repo (never /repo itself): applies cleanly, builds, the repository's test-suite still passes, the
demonstration fails with the change and passes without it; then runs the given checks (default: the property's own)
against the changed copy and stores everything under /verif/seeded/<ID>-<K>/."""
import json, os, shutil, subprocess, sys, tempfile, glob

def sh(cmd, cwd=None, env=None, timeout=3000):
    r = subprocess.run(cmd, shell=True, cwd=cwd, env=env, stdout=subprocess.PIPE, stderr=subprocess.STDOUT, text=True, timeout=timeout)
    return r.returncode, r.stdout

def copy_repo(dst):
    sh("rsync -a --exclude .git --exclude '*.o' --exclude '*.a' --exclude '*.so' --exclude '*.bin' --exclude bin/eav /repo/ %s/" % dst)

def run_demo(root, demo):
    sh("make static app %s >/dev/null 2>&1" % os.environ.get("DEMO_MAKE", ""), cwd=root)
    shutil.copy(demo, root)
    name = os.path.basename(demo)
    env = dict(os.environ); env["LD_LIBRARY_PATH"] = root
    if name.endswith(".c"):
        exe = name[:-2]
        rc, out = sh("cc " + os.environ.get("DEMO_CC", "") + " -Iinclude -Isrc -I. %s libeav.a -lidn2 -lpthread -o %s 2>&1 && ./%s" % (name, exe, exe), cwd=root, env=env, timeout=600)
    else:
        rc, out = sh("sh ./%s" % name, cwd=root, env=env, timeout=900)
    return rc, out[-1500:]

def main():
    pid, k = sys.argv[1], sys.argv[2]
    checks = sys.argv[3:] or [pid]
    src = os.environ.get("SEED_SRC") or "/tmp/seed/%s-out" % pid
    tag = os.environ.get("SEED_TAG", "")
    patch = os.path.join(src, "patch%s.diff" % k)
    demos = glob.glob(os.path.join(src, "demo%s.*" % k))
    demo = [d for d in demos if d.endswith((".c", ".sh"))][0]
    T = tempfile.mkdtemp(prefix="verif-seed-")
    res = {"id": "%s%s-%s" % (tag, pid, k), "property": pid}
    try:
        clean, mut = os.path.join(T, "clean"), os.path.join(T, "mut")
        os.makedirs(clean); os.makedirs(mut)
        copy_repo(clean); copy_repo(mut)
        rc, out = sh("patch -p1 -s < %s" % patch, cwd=mut)
        res["applies"] = rc == 0
        if rc != 0:
            print(json.dumps(res)); return
        env = dict(os.environ); env["VERIF_REPO"] = mut; env["BASELINE_REF"] = "/verif/notes/baseline_lines_pinned.txt"
        rc, out = sh("/verif/tools/baseline.sh", env=env)
        res["suite_passes_with_change"] = rc == 0 and "identical" in out
        res["suite_output"] = out.strip().splitlines()[-2:]
        rc_m, out_m = run_demo(mut, demo)
        rc_c, out_c = run_demo(clean, demo)
        res["demo_exit_with_change"] = rc_m
        res["demo_exit_without_change"] = rc_c
        res["demo_tail_with_change"] = out_m[-600:]
        res["confirmed"] = bool(res["suite_passes_with_change"] and rc_m != 0 and rc_c == 0)
        det = {}
        for c in checks:
            env = dict(os.environ)
            env.update({"VERIF_REPO": mut, "VERIF_EVIDENCE_DIR": os.path.join(T, "ev"), "VERIF_REPLAY_DIR": os.path.join(T, "rp")})
            r = subprocess.run(["/verif/check", c, "--tier", os.environ.get("TIER", "quick")], stdout=subprocess.PIPE, stderr=subprocess.PIPE, text=True, env=env)
            first = [l for l in r.stderr.splitlines() if "violation:" in l][:2]
            det[c] = {"exit": r.returncode, "verdict": "VIOLATION" if r.returncode == 1 else "OK" if r.returncode == 0 else "INFRA",
                      "first_violations": [f[:500] for f in first]}
            if r.returncode == 2:
                det[c]["stderr_tail"] = r.stderr[-800:]
        res["checks"] = det
        res["detected_by"] = sorted(c for c, d in det.items() if d["verdict"] == "VIOLATION")
        out_dir = "/verif/seeded/%s%s-%s" % (tag, pid, k)
        os.makedirs(out_dir, exist_ok=True)
        shutil.copy(patch, os.path.join(out_dir, "patch.diff"))
        shutil.copy(demo, os.path.join(out_dir, os.path.basename(demo).replace("demo%s" % k, "demo")))
        meta = {}
        mp = os.path.join(src, "meta%s.json" % k)
        if os.path.exists(mp):
            try:
                meta = json.load(open(mp))
            except Exception:
                meta = {"raw": open(mp).read()[:3000]}
        json.dump({"property": pid, "agent_meta": meta, "confirmation": res}, open(os.path.join(out_dir, "meta.json"), "w"), indent=1)
        print(json.dumps({k_: res[k_] for k_ in ("id", "confirmed", "suite_passes_with_change", "demo_exit_with_change", "demo_exit_without_change", "detected_by")}))
    finally:
        shutil.rmtree(T, ignore_errors=True)

main()
