/* convprobe.c - the environment: asks the IDN converter (the same libidn2 the library links)
 * for its answer on each domain given as a line of comma separated byte values.
 * Output, one line per input:  code n b1 .. bn   */
#include <stdio.h>
#include <stdlib.h>
#include <string.h>
#include <idn2.h>

int
main (void)
{
    char *line = NULL; size_t cap = 0; ssize_t r;
    while ((r = getline (&line, &cap, stdin)) > 0) {
        char buf[4096]; int n = 0; char *p = line, *e, *out = NULL; int code;
        while (*p && *p != '\n') {
            long v = strtol (p, &e, 10);
            if (e == p) break;
            if (n < (int) sizeof buf - 1) buf[n++] = (char) v;
            p = e; while (*p == ',' || *p == ' ') p++;
        }
        buf[n] = 0;
        code = idn2_to_ascii_8z (buf, &out, IDN2_NONTRANSITIONAL);
        printf ("%d", code);
        if (code == IDN2_OK && out) {
            size_t l = strlen (out);
            printf (" %zu", l);
            for (size_t i = 0; i < l; i++) printf (" %d", (unsigned char) out[i]);
        } else printf (" 0");
        printf ("\n");
        if (out) idn2_free (out);
    }
    return 0;
}
