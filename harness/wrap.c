/* wrap.c - link-time interposition (-Wl,--wrap=malloc,--wrap=free,--wrap=strndup,--wrap=idn2_to_ascii_8z):
 * allocation accounting for the library's own objects and a programmable IDN converter (the
 * environment of the specification).  No source change in /repo is needed. */
#include <stdlib.h>
#include <string.h>
#include <stdio.h>

void *__real_malloc (size_t);
void __real_free (void *);
int __real_idn2_to_ascii_8z (const char *, char **, int);

int wrap_track;            /* account allocations made / released while set */
int wrap_fault_code;       /* != 0: the next converter call fails with this code (one shot) */
int wrap_fault_buffer;     /* the failing call nevertheless produces an output buffer */
long wrap_conv_calls, wrap_bad_free, wrap_allocs, wrap_frees;

#define NLIVE 4096
static void *live[NLIVE];
static int nlive;

static void
add (void *p)
{
    if (nlive < NLIVE) live[nlive++] = p;
    wrap_allocs++;
}

static int
del (void *p)
{
    for (int i = nlive - 1; i >= 0; i--)
        if (live[i] == p) { live[i] = live[--nlive]; wrap_frees++; return 1; }
    return 0;
}

long wrap_live_allocs (void) { return nlive; }
void wrap_reset (void) { nlive = 0; wrap_bad_free = 0; }

void *
__wrap_malloc (size_t n)
{
    void *p = __real_malloc (n);
    /* the content of a fresh block is indeterminate: make that visible (a pointer field read before it is set is 0xa5a5...) */
    if (p) memset (p, 0xa5, n);
    if (wrap_track && p) add (p);
    return p;
}

void
__wrap_free (void *p)
{
    /* a pointer the library never obtained from malloc (or already released) is counted and not passed on */
    if (wrap_track && p && !del (p)) { wrap_bad_free++; return; }
    __real_free (p);
}

char *
__wrap_strndup (const char *s, size_t n)
{
    size_t l = strnlen (s, n);
    char *p = __wrap_malloc (l + 1);
    if (p) { memcpy (p, s, l); p[l] = 0; }
    return p;
}

int
__wrap_idn2_to_ascii_8z (const char *in, char **out, int flags)
{
    int r;
    wrap_conv_calls++;
    if (wrap_fault_code) {
        r = wrap_fault_code;
        wrap_fault_code = 0;
        if (wrap_fault_buffer) {
            *out = __real_malloc (4);
            if (*out) { strcpy (*out, "x.y"); if (wrap_track) add (*out); }
        }
        return r;
    }
    r = __real_idn2_to_ascii_8z (in, out, flags);
    if (r == 0 && *out && wrap_track) add (*out);
    return r;
}
