/* idn/api.h - thin adapter: the idnkit API used by partial/idnkit/ mapped onto libidn2, with a
 * counted resource context so that create / destroy balance can be observed (C18). */
#ifndef VERIF_ADAPTER_IDNKIT_H
#define VERIF_ADAPTER_IDNKIT_H
#include <stddef.h>
typedef struct verif_resconf *idn_resconf_t;
typedef unsigned long idn_action_t;
typedef int idn_result_t;
#define idn_success 0
#define idn_buffer_overflow (-9001)
#define idn_nomemory (-9002)
#define IDN_ENCODE_REGIST 0x1000UL
extern idn_result_t idn_resconf_initialize (void);
extern idn_result_t idn_resconf_create (idn_resconf_t *ctx);
extern void idn_resconf_destroy (idn_resconf_t ctx);
extern idn_result_t idn_res_encodename (idn_resconf_t ctx, idn_action_t actions, const char *from, char *to, size_t tolen);
extern const char *idn_result_tostring (idn_result_t r);
#endif
