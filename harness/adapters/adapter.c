/* adapter.c - implementation of the two adapters on top of libidn2 */
#include <stdlib.h>
#include <string.h>
#include <idn2.h>
#undef idna_to_ascii_lz
#undef idna_strerror

long adapter_ctx_created, adapter_ctx_destroyed, adapter_ctx_bad, adapter_ctx_live, adapter_nullctx_use;

/* ---- libidn ---- */
/* GNU libidn reports failures with POSITIVE codes (Idna_rc: 1..9, 201, 202), libidn2 with negative ones.  The stand-in keeps a
 * one-to-one image of the converter's code in the positive range (5000 - code), so that the libidn source set is exercised with
 * the sign its real library has; idna_strerror maps back. */
int
idna_to_ascii_lz (const char *input, char **output, int flags)
{
    int r;
    (void) flags;
    r = idn2_to_ascii_8z (input, output, IDN2_NONTRANSITIONAL);
    return r == 0 ? 0 : 5000 - r;
}

const char *
idna_strerror (int rc)
{
    return idn2_strerror (rc > 0 ? 5000 - rc : rc);
}

/* ---- idnkit ---- */
struct verif_resconf { int magic; };
#define MAGIC 0x1d4b17

int
idn_resconf_initialize (void)
{
    return 0;
}

int
idn_resconf_create (struct verif_resconf **ctx)
{
    /* contexts come from a static ring, not from malloc: a destroyed context stays recognisable (use after
     * destroy, second destroy) and the adapter's own bookkeeping does not show up in the allocation accounting */
    static struct verif_resconf ring[4096];
    static unsigned next;
    *ctx = &ring[next++ % 4096];
    (*ctx)->magic = MAGIC;
    adapter_ctx_created++;
    adapter_ctx_live++;
    return 0;
}

void
idn_resconf_destroy (struct verif_resconf *ctx)
{
    if (ctx == NULL || ctx->magic != MAGIC) { adapter_ctx_bad++; return; }
    ctx->magic = 0;
    adapter_ctx_destroyed++;
    adapter_ctx_live--;
}

int
idn_res_encodename (struct verif_resconf *ctx, unsigned long actions, const char *from, char *to, size_t tolen)
{
    char *out = NULL;
    int r;
    (void) actions;
    if (ctx == NULL || ctx->magic != MAGIC) adapter_nullctx_use++;
    r = idn2_to_ascii_8z (from, &out, IDN2_NONTRANSITIONAL);
    if (r != IDN2_OK) { if (out) free (out); return r; }
    if (strlen (out) + 1 > tolen) { free (out); return -9001; }
    strcpy (to, out);
    free (out);                      /* free(), not idn2_free(): visible to the --wrap accounting */
    return 0;
}

const char *
idn_result_tostring (int r)
{
    if (r == -9001) return "buffer overflow";
    if (r == -9002) return "out of memory";
    return idn2_strerror (r);
}
