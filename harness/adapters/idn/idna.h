/* idna.h - thin adapter: the libidn API used by partial/idn/ mapped onto the converter that is
 * installed here (libidn2), so that the three source sets are given equivalent conversions (C18). */
#ifndef VERIF_ADAPTER_IDNA_H
#define VERIF_ADAPTER_IDNA_H
/* idn2.h offers libidn compatibility macros of the same names: the adapter's functions are meant here */
#undef idna_to_ascii_lz
#undef idna_strerror
#undef IDNA_SUCCESS
#define IDNA_SUCCESS 0
extern int idna_to_ascii_lz (const char *input, char **output, int flags);
extern const char *idna_strerror (int rc);
#endif
