/*
 * threads.c - C14: N threads validate the same TLC-generated address vectors concurrently, each with
 * its own eav_t, all reading the same shared read-only strings; every outcome must equal what a single
 * thread obtained for the same call.  Built with -fsanitize=thread the run also exposes any
 * unsynchronised access to shared memory inside the library, whatever the schedule.
 *
 * usage: threads OUTDIR NTHREADS ROUNDS < vectors
 */
#define _GNU_SOURCE
#include <stdio.h>
#include <stdlib.h>
#include <string.h>
#include <pthread.h>
#include <eav.h>
#include "common.h"

#if defined(HAVE_IDNKIT)
#error "threads driver is built for the idn2 / idn backends"
#endif

typedef int (*local_f)(const char *, const char *);
typedef eav_result_t *(*email_f)(const char *, size_t, bool);
static const local_f locals[4] = { is_822_local, is_5321_local, is_5322_local, is_6531_local };
static const email_f emails[4] = { is_822_email, is_5321_email, is_5322_email, is_6531_email };

typedef struct { char *s; int n, at; } addr_t;
typedef struct { int rc, fl, ret, err, lrc; } out_t;
static addr_t *addrs; static int naddr, cap;
static out_t *base;          /* [naddr][2][4] */
static int nthreads = 4, rounds = 2;
static long mismatches[64], calls[64];
static FILE *f_tr;
static pthread_mutex_t mu = PTHREAD_MUTEX_INITIALIZER;
static pthread_barrier_t bar;
#define BLOCK 32

static void
one (const addr_t *a, int tld, int m, eav_t *ev, out_t *o)
{
    eav_result_t *r = emails[m] (a->s, a->n, tld);
    o->rc = r->rc;
    o->fl = (r->is_ipv4 ? 1 : 0) | (r->is_ipv6 ? 2 : 0) | (r->is_domain ? 4 : 0);
    eav_result_free (r);
    o->lrc = a->at >= 1 ? locals[m] (a->s, a->s + a->at - 1) : 1;
    ev->rfc = (EAV_RFC) m;
    ev->tld_check = tld;
    if (eav_setup (ev) != 0) { o->ret = -1; o->err = -1; return; }
    o->ret = eav_is_email (ev, a->s, a->n);
    o->err = ev->errcode;
}

static void *
worker (void *arg)
{
    long id = (long) arg;
    eav_t ev;
    eav_init (&ev);
    for (int r = 0; r < rounds; r++)
        for (int k = 0; k < naddr; k++) {
            /* even rounds: all threads work on the same block of BLOCK addresses at the same time (barrier at the block boundary, each
             * thread in its own order inside the block), so that two threads really are inside the library with the same string and the
             * race detector still remembers the other thread's access; odd rounds: every thread walks in a different phase */
            int i;
            if (r % 2 == 0) {
                int blk = k / BLOCK, off = k % BLOCK, len = (blk + 1) * BLOCK <= naddr ? BLOCK : naddr - blk * BLOCK;
                if (off == 0) pthread_barrier_wait (&bar);
                i = blk * BLOCK + (int) ((off + id * 5) % len);
            } else
                i = (int) ((k + id * 7919 + r * 13) % naddr);
            for (int tld = 0; tld < 2; tld++) for (int m = 0; m < 4; m++) {
                out_t o, *b = &base[(i * 2 + tld) * 4 + m];
                one (&addrs[i], tld, m, &ev, &o);
                calls[id]++;
                if (memcmp (&o, b, sizeof o) != 0) {
                    mismatches[id]++;
                    pthread_mutex_lock (&mu);
                    if (mismatches[id] < 20)
                        fprintf (f_tr, "{\"thread\":%ld,\"addr\":%d,\"tld\":%d,\"mode\":%d,\"rc\":%d,\"fl\":%d,\"ret\":%d,\"err\":%d,"
                                 "\"single_rc\":%d,\"single_fl\":%d,\"single_ret\":%d,\"single_err\":%d}\n",
                                 id, i, tld, m, o.rc, o.fl, o.ret, o.err, b->rc, b->fl, b->ret, b->err);
                    pthread_mutex_unlock (&mu);
                }
            }
        }
    eav_free (&ev);
    return NULL;
}

int
main (int argc, char **argv)
{
    char *line = NULL; size_t lcap = 0; ssize_t r;
    long *v = NULL; int vcap = 0;
    char path[600];
    pthread_t th[64];
    eav_t ev;
    long total = 0, bad = 0;
    FILE *f;

    if (argc < 4) die ("usage: threads OUTDIR NTHREADS ROUNDS");
    nthreads = atoi (argv[2]); rounds = atoi (argv[3]);
    if (nthreads < 1 || nthreads > 64) die ("threads");
    while ((r = getline (&line, &lcap, stdin)) > 0) {
        int nv, n;
        if (r < 3 || line[0] != '"' || line[1] != '[') continue;
        nv = parse_ints (line + 2, &v, &vcap);
        if (nv < 4 || v[0] != 5) continue;
        n = (int) v[2];
        if (naddr == cap) { cap = cap ? cap * 2 : 1024; addrs = realloc (addrs, cap * sizeof *addrs); }
        addrs[naddr].s = malloc (n + 1);
        for (int i = 0; i < n; i++) addrs[naddr].s[i] = (char) v[3 + i];
        addrs[naddr].s[n] = 0;
        addrs[naddr].n = n;
        addrs[naddr].at = (int) v[3 + n];
        naddr++;
    }
    if (naddr == 0) die ("no vectors");
    snprintf (path, sizeof path, "%s/threads.ndjson", argv[1]);
    if (!(f_tr = fopen (path, "w"))) die ("open");
    /* what a single thread obtains */
    base = calloc ((size_t) naddr * 8, sizeof *base);
    eav_init (&ev);
    for (int i = 0; i < naddr; i++) for (int tld = 0; tld < 2; tld++) for (int m = 0; m < 4; m++)
        one (&addrs[i], tld, m, &ev, &base[(i * 2 + tld) * 4 + m]);
    eav_free (&ev);
    pthread_barrier_init (&bar, NULL, (unsigned) nthreads);
    for (long t = 0; t < nthreads; t++) pthread_create (&th[t], NULL, worker, (void *) t);
    for (long t = 0; t < nthreads; t++) pthread_join (th[t], NULL);
    for (int t = 0; t < nthreads; t++) { total += calls[t]; bad += mismatches[t]; }
    fclose (f_tr);
    snprintf (path, sizeof path, "%s/summary.json", argv[1]);
    if (!(f = fopen (path, "w"))) die ("open");
    fprintf (f, "{\"threads\":%d,\"addresses\":%d,\"calls\":%ld,\"mismatches\":%ld}\n", nthreads, naddr, total, bad);
    fclose (f);
    for (int i = 0; i < naddr; i++) free (addrs[i].s);
    free (addrs); free (base); free (line); free (v);
    return 0;
}
