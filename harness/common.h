/* common.h - shared plumbing of the replay / record drivers (header-only) */
#ifndef VERIF_COMMON_H
#define VERIF_COMMON_H
#define _GNU_SOURCE
#include <stdio.h>
#include <stdlib.h>
#include <string.h>
#include <signal.h>
#include <unistd.h>
#include <fcntl.h>
#include <errno.h>
#include <sys/mman.h>
#include <locale.h>
#include <ctype.h>

static struct {
    long vectors, calls, checked, pinned, viol, drift;
} cnt;

static FILE *f_viol, *f_drift;
static char outdir[512];
static int fd_current = -1;
static char current[1 << 20];
static size_t current_len;
static long ro_stride = 8;
static long place_no;

static void
die (const char *msg)
{
    fprintf (stderr, "driver: %s\n", msg);
    exit (2);
}

/* ---- guard-page placement ---------------------------------------- */
#define PAGE 4096
#define NPAGES 40                     /* room for inputs up to 160 KiB */
static unsigned char *g_base, *g_data, *g_end;
static int g_ro;

static void
guard_init (void)
{
    g_base = mmap (NULL, (NPAGES + 2) * PAGE, PROT_READ | PROT_WRITE,
                   MAP_PRIVATE | MAP_ANONYMOUS, -1, 0);
    if (g_base == MAP_FAILED) die ("mmap");
    g_data = g_base + PAGE;
    g_end = g_data + NPAGES * PAGE;
    if (mprotect (g_base, PAGE, PROT_NONE) || mprotect (g_end, PAGE, PROT_NONE))
        die ("mprotect");
}

/* copy n bytes (given as longs) + NUL; side 0 = right-aligned, 1 = left-aligned.
 * term >= 0 places that byte instead of NUL (never used for library calls). */
static const char *
place (const long *b, int n, int side, int term)
{
    unsigned char *p;
    if (n + 1 > NPAGES * PAGE) die ("input too long");
    p = side == 0 ? g_end - (n + 1) : g_data;
    for (int i = 0; i < n; i++) p[i] = (unsigned char) b[i];
    p[n] = term >= 0 ? (unsigned char) term : 0;
    g_ro = 0;
    if (ro_stride > 0 && (place_no++ % ro_stride) == 0) {
        if (mprotect (g_data, NPAGES * PAGE, PROT_READ)) die ("mprotect ro");
        g_ro = 1;
    }
    return (const char *) p;
}

static const char *
place_bytes (const unsigned char *b, int n, int side)
{
    unsigned char *p;
    if (n + 1 > NPAGES * PAGE) die ("input too long");
    p = side == 0 ? g_end - (n + 1) : g_data;
    memcpy (p, b, n);
    p[n] = 0;
    g_ro = 0;
    if (ro_stride > 0 && (place_no++ % ro_stride) == 0) {
        if (mprotect (g_data, NPAGES * PAGE, PROT_READ)) die ("mprotect ro");
        g_ro = 1;
    }
    return (const char *) p;
}

static void
unplace (void)
{
    if (g_ro) {
        if (mprotect (g_data, NPAGES * PAGE, PROT_READ | PROT_WRITE)) die ("mprotect rw");
        g_ro = 0;
    }
}

/* ---- crash attribution ------------------------------------------- */
static void
set_current (const char *line)
{
    current_len = strlen (line);
    if (current_len >= sizeof current) current_len = sizeof current - 1;
    memcpy (current, line, current_len);
}

static void
on_fatal (int sig)
{
    char hdr[64];
    int n = snprintf (hdr, sizeof hdr, "signal %d\n", sig);
    if (fd_current >= 0) {
        if (write (fd_current, hdr, n) < 0) {}
        if (write (fd_current, current, current_len) < 0) {}
    }
    _exit (3);
}

/* ---- output ------------------------------------------------------- */
static void
put_bytes (FILE *f, const long *b, int n)
{
    fputc ('[', f);
    for (int i = 0; i < n; i++) fprintf (f, i ? ",%ld" : "%ld", b[i]);
    fputc (']', f);
}

static void
put_ubytes (FILE *f, const unsigned char *b, int n)
{
    fputc ('[', f);
    for (int i = 0; i < n; i++) fprintf (f, i ? ",%d" : "%d", b[i]);
    fputc (']', f);
}

#define MAX_VIOL 3000
static void
viol (const char *kind, const char *what, int mode, int ob,
      const long *b, int n, long exp, long got, long extra)
{
    cnt.viol++;
    if (cnt.viol > MAX_VIOL) return;
    fprintf (f_viol, "{\"kind\":\"%s\",\"what\":\"%s\",\"mode\":%d,\"opts\":%d,\"in\":",
             kind, what, mode, ob);
    put_bytes (f_viol, b, n);
    fprintf (f_viol, ",\"exp\":%ld,\"got\":%ld,\"model\":%ld}\n", exp, got, extra);
    fflush (f_viol);
}

static void
drift_local (int mode, int ob, const long *b, int n, int rc, int mrc)
{
    cnt.drift++;
    if (cnt.drift > 200000) return;
    fprintf (f_drift, "{\"e\":\"local\",\"o\":%d,\"mode\":%d,\"in\":", ob, mode);
    put_bytes (f_drift, b, n);
    fprintf (f_drift, ",\"rc\":%d,\"mrc\":%d}\n", rc, mrc);
}

static void
drift_ev (const char *kind, int mode, int ob, const long *b, int n, int rc, int mrc)
{
    cnt.drift++;
    if (cnt.drift > 200000) return;
    fprintf (f_drift, "{\"e\":\"%s\",\"o\":%d,\"mode\":%d,\"in\":", kind, ob, mode);
    put_bytes (f_drift, b, n);
    fprintf (f_drift, ",\"rc\":%d,\"mrc\":%d}\n", rc, mrc);
}

/* parse comma separated integers up to ']' */
static int
parse_ints (const char *p, long **pv, int *pcap)
{
    int n = 0;
    while (*p && *p != ']') {
        char *e;
        long x;
        while (*p == ',' || *p == ' ') p++;
        if (*p == ']' || !*p) break;
        x = strtol (p, &e, 10);
        if (e == p) return -1;
        if (n >= *pcap) {
            *pcap = *pcap ? *pcap * 2 : 256;
            *pv = realloc (*pv, *pcap * sizeof (long));
            if (!*pv) die ("oom");
        }
        (*pv)[n++] = x;
        p = e;
    }
    return n;
}

static void
common_init (const char *dir, long stride_)
{
    char path[600];
    struct sigaction sa;

    ro_stride = stride_;
    snprintf (outdir, sizeof outdir, "%s", dir);
    snprintf (path, sizeof path, "%s/viol.ndjson", dir);
    if (!(f_viol = fopen (path, "w"))) die ("open viol");
    snprintf (path, sizeof path, "%s/drift.ndjson", dir);
    if (!(f_drift = fopen (path, "w"))) die ("open drift");
    snprintf (path, sizeof path, "%s/current.txt", dir);
    fd_current = open (path, O_WRONLY | O_CREAT | O_TRUNC, 0644);
    guard_init ();
    if (getenv ("VERIF_LOCALE")) {      /* run the vectors in the single-byte locale prepared by the checker */
        if (!setlocale (LC_ALL, getenv ("VERIF_LOCALE"))) die ("setlocale (VERIF_LOCALE) failed");
        if (!isalnum (0xe9)) die ("VERIF_LOCALE is not the single-byte locale expected");
    }

    memset (&sa, 0, sizeof sa);
    sa.sa_handler = on_fatal;
    sigaction (SIGSEGV, &sa, NULL);
    sigaction (SIGBUS, &sa, NULL);
    sigaction (SIGABRT, &sa, NULL);
    sigaction (SIGALRM, &sa, NULL);
    sigaction (SIGFPE, &sa, NULL);
    sigaction (SIGILL, &sa, NULL);
}

static void
common_finish (void)
{
    char path[600];
    FILE *f;
    snprintf (path, sizeof path, "%s/summary.json", outdir);
    if (!(f = fopen (path, "w"))) die ("open summary");
    fprintf (f, "{\"vectors\":%ld,\"calls\":%ld,\"checked\":%ld,\"pinned\":%ld,"
                "\"viol\":%ld,\"drift\":%ld}\n",
             cnt.vectors, cnt.calls, cnt.checked, cnt.pinned, cnt.viol, cnt.drift);
    fclose (f);
    fclose (f_viol);
    fclose (f_drift);
}
#endif
