/*
 * replay.c - direction A of the binding: executes vectors printed by TLC
 * against the real libeav built from /repo's working tree.
 *
 * input  (stdin): TLC output; vector lines look like  "[K,a,b,...]"
 * output (files in argv[1] directory):
 *    viol.ndjson   observed outcome outside what layer P allows
 *    drift.ndjson  observed outcome differs from layer M's prediction (trace for TLC, direction B)
 *    summary.json  counters
 *    current.txt   the vector being executed (for crash attribution)
 *
 * Every input string is executed twice: right-aligned (its terminator is
 * the last byte before a PROT_NONE page) and left-aligned (its first byte
 * is the first byte after one), so a read before the string or past the
 * terminator faults at once; every STRIDE-th vector the input pages are
 * also made read-only during the call.
 */
#define _GNU_SOURCE
#include <stdio.h>
#include <stdlib.h>
#include <string.h>
#include <signal.h>
#include <unistd.h>
#include <fcntl.h>
#include <sys/mman.h>
#include <eav.h>
#include <eav/auto_tld.h>
#include <idn2.h>
#include "common.h"

static long stride = 8;

/* ------------------------------------------------------------------ */
/* kind 1: local part.  [1, optbits, n, bytes.., c12, (exp, mrc) x 4 modes]
 * c12 = 1: the spec says the cross-mode relation of C12 applies (all four codes equal) */
typedef int (*local_f)(const char *, const char *);
static const struct { int mode; local_f f; } locals[4] = {
    { 822, is_822_local }, { 5321, is_5321_local },
    { 5322, is_5322_local }, { 6531, is_6531_local } };

static void
do_local (long *v, int nv)
{
    int ob = (int) v[1], n = (int) v[2];
    const long *b = v + 3, *x = v + 3 + n + 1;
    int c12 = (int) v[3 + n];
    int got[4];
    if (nv != 3 + n + 9) die ("bad local vector");
    for (int m = 0; m < 4; m++) {
        int exp = (int) x[2*m], mrc = (int) x[2*m+1];
        int rc[2];
        for (int side = 0; side < 2; side++) {
            const char *p = place (b, n, side, -1);
            rc[side] = locals[m].f (p, p + n);
            unplace ();
        }
        cnt.calls += 2;
        if (rc[0] != rc[1])
            viol ("local", "placement-dependent result", locals[m].mode, ob, b, n, exp, rc[0], rc[1]);
        else if ((exp == 1 && rc[0] != 0) || (exp == 0 && rc[0] >= 0) || rc[0] > 0)
            viol ("local", "decision", locals[m].mode, ob, b, n, exp, rc[0], mrc);
        else if (rc[0] != mrc)
            drift_local (locals[m].mode, ob, b, n, rc[0], mrc);
        if (exp != 2) cnt.pinned++;
        cnt.checked++;
        got[m] = rc[0];
    }
    if (c12 && !(got[0] == got[1] && got[1] == got[2] && got[2] == got[3]))
        viol ("local", "cross-mode", 0, ob, b, n, got[0], got[1], got[3]);
    if (got[1] == 0 && got[0] != 0)
        viol ("local", "cross-inclusion", 0, ob, b, n, got[0], got[1], 0);
}

/* ------------------------------------------------------------------ */
/* kind 2: host name.  [2, optbits, n, bytes.., exp, mrc] */
static void
do_host (long *v, int nv)
{
    int ob = (int) v[1], n = (int) v[2];
    const long *b = v + 3;
    int exp = (int) v[3 + n], mrc = (int) v[4 + n];
    int rc[2], ascii = 1;
    if (nv != 3 + n + 2) die ("bad host vector");
    for (int side = 0; side < 2; side++) {
        const char *p = place (b, n, side, -1);
        rc[side] = is_ascii_domain (p, p + n);
        unplace ();
    }
    cnt.calls += 2; cnt.checked++; cnt.pinned++;
    if (rc[0] != rc[1])
        viol ("host", "placement-dependent result", 0, ob, b, n, exp, rc[0], rc[1]);
    else if ((exp == 1) != (rc[0] == 0) || rc[0] > 0)
        viol ("host", "decision", 0, ob, b, n, exp, rc[0], mrc);
    else if (rc[0] != mrc)
        drift_ev ("host", 0, ob, b, n, rc[0], mrc);
    /* mode 6531 applies the same rules to the A-label form: for an all-ASCII
     * string nothing that violates them may be accepted */
    for (int i = 0; i < n; i++) if (b[i] >= 128) ascii = 0;
    if (ascii && n > 0) {
        int idn = 0, r;
        const char *p = place (b, n, 0, -1);
        r = is_utf8_domain (&idn, p, p + n, false);
        unplace ();
        cnt.calls++; cnt.checked++; cnt.pinned += (exp == 0);
        if (r == 0 && exp == 0)
            viol ("host", "utf8-domain accepts an invalid host name", 6531, ob, b, n, exp, r, idn);
        else if (r > 0 || (r < 0 && r != rc[0] && r != -EEAV_IDN_ERROR))
            viol ("host", "utf8-domain code", 6531, ob, b, n, exp, r, rc[0]);
    }
}

/* ------------------------------------------------------------------ */
/* kind 3: address literal.
 * [3, n, domain.., exp, family, mrc, mv4, mv6, ni, inner.., v4exp, v6exp, m_ipv4, m_ipv6, m_ipaddr] */
typedef eav_result_t *(*email_f)(const char *, size_t, bool);
static const struct { int mode; email_f f; } emails[4] = {
    { 822, is_822_email }, { 5321, is_5321_email },
    { 5322, is_5322_email }, { 6531, is_6531_email } };

static void
sandwich (const char *what, const long *b, int n, int exp, int got, int model)
{
    cnt.checked++; if (exp != 2) cnt.pinned++;
    /* the properties speak about address literals inside a domain part, not about the bare
     * is_ipv4 / is_ipv6 / is_ipaddr entry points: a disagreement here is model drift only */
    if ((exp == 1 && got != 1) || (exp == 0 && got != 0) || got != model)
        drift_ev (what, 0, 0, b, n, got, model);
}

static void
do_ip (long *v, int nv)
{
    int n = (int) v[1];
    const long *d = v + 2, *x = v + 2 + n;
    int exp = (int) x[0], fam = (int) x[1], mrc = (int) x[2];
    int ni = (int) x[5];
    const long *in = x + 6, *y = x + 6 + ni;
    static long buf[1 << 16];
    int first_rc = 0, first_fl = 0;

    if (nv != 2 + n + 6 + ni + 5) die ("bad ip vector");
    buf[0] = 'x'; buf[1] = '@';
    for (int i = 0; i < n; i++) buf[2 + i] = d[i];
    for (int m = 0; m < 4; m++) for (int tld = 0; tld < 2; tld++) {
        const char *p = place (buf, n + 2, (m + tld) & 1, -1);
        eav_result_t *r = emails[m].f (p, n + 2, tld);
        int rc = r->rc, fl = (r->is_ipv4 ? 1 : 0) | (r->is_ipv6 ? 2 : 0) | (r->is_domain ? 4 : 0);
        unplace ();
        eav_result_free (r);
        cnt.calls++; cnt.checked++; if (exp != 2) cnt.pinned++;
        if ((exp == 1 && rc != 0) || (exp == 0 && rc >= 0) || rc > 0)
            viol ("literal", "decision", emails[m].mode, tld, d, n, exp, rc, mrc);
        else if (rc == 0 && fl != (fam == 4 ? 1 : 2))
            viol ("literal", "family flag", emails[m].mode, tld, d, n, fam, fl, mrc);
        else if (rc < 0 && fl != 0)
            viol ("literal", "flag set on rejection", emails[m].mode, tld, d, n, 0, fl, rc);
        else if (rc != mrc && m == 0 && tld == 0)
            drift_ev ("literal", emails[m].mode, 0, d, n, rc, mrc);
        if (m == 0 && tld == 0) { first_rc = rc; first_fl = fl; }
        else if (rc != first_rc || fl != first_fl)
            viol ("literal", tld ? "mode/tld_check dependent" : "mode dependent", emails[m].mode, tld, d, n, first_rc, rc, fl);
    }
    /* the bare public validators on the NUL-terminated inner string */
    {
        int colon = 0;
        const char *p;
        for (int i = 0; i < ni; i++) if (in[i] == ':') colon = 1;
        p = place (in, ni, 0, -1);
        sandwich ("ipv4", in, ni, (int) y[0], is_ipv4 (p, p + ni), (int) y[2]);
        sandwich ("ipv6", in, ni, (int) y[1], is_ipv6 (p, p + ni), (int) y[3]);
        sandwich ("ipaddr", in, ni, colon ? (int) y[1] : (int) y[0], is_ipaddr (p, p + ni), (int) y[4]);
        unplace ();
        p = place (in, ni, 1, -1);
        if (is_ipv4 (p, p + ni) != is_ipv4 (p, p + ni)) die ("nondeterministic");
        unplace ();
        cnt.calls += 4;
    }
}

/* ------------------------------------------------------------------ */
/* kind 5: whole address.
 * [5, optbits, n, bytes.., at, c12, 8 x (exp, erc, eflag, mrc, mflag)]  (tld off x 4 modes, tld on x 4 modes) */
#define NOPIN 99
#define ALLOW_ALL 0x7fc

static void
email_event (FILE *f, int ob, int mode, int tld, const long *b, int n, int rc, int fl, int idn, int mrc, int mfl)
{
    fprintf (f, "{\"e\":\"email\",\"o\":%d,\"mode\":%d,\"tld\":%d,\"in\":", ob, mode, tld);
    put_bytes (f, b, n);
    fprintf (f, ",\"rc\":%d,\"fl\":%d,\"idn\":%d,\"mrc\":%d,\"mfl\":%d", rc, fl, idn, mrc, mfl);
    if (mode == 6531) {
        /* the environment: what the converter itself answers for the domain part */
        int at = -1;
        for (int i = 0; i < n; i++) if (b[i] == '@') at = i;
        if (at >= 0 && at + 1 < n && b[at + 1] != '[') {
            char *tmp = malloc (n - at), *out = NULL;
            int code;
            for (int i = at + 1; i < n; i++) tmp[i - at - 1] = (char) b[i];
            tmp[n - at - 1] = 0;
            code = idn2_to_ascii_8z (tmp, &out, IDN2_NONTRANSITIONAL);
            fprintf (f, ",\"cc\":%d,\"co\":", code);
            if (code == IDN2_OK && out) put_ubytes (f, (unsigned char *) out, (int) strlen (out));
            else fputs ("[]", f);
            if (out) idn2_free (out);
            free (tmp);
        }
    }
    fputs ("}\n", f);
}

static void
do_email (long *v, int nv)
{
    int ob = (int) v[1], n = (int) v[2];
    const long *b = v + 3, *x = v + 3 + n;
    int at = (int) x[0], c12 = (int) x[1];
    int rcs[2][4], fls[2][4], rcl[4];
    if (nv != 3 + n + 2 + 40) die ("bad email vector");
    x += 2;
    for (int m = 0; m < 4; m++) rcl[m] = 1;
    for (int tld = 0; tld < 2; tld++) for (int m = 0; m < 4; m++) {
        const long *e = x + 5 * (tld * 4 + m);
        int exp = (int) e[0], erc = (int) e[1], eflag = (int) e[2], mrc = (int) e[3], mfl = (int) e[4];
        int mode = emails[m].mode;
        const char *p = place (b, n, (m + tld) & 1, -1);
        eav_result_t *r = emails[m].f (p, n, tld);
        int rc = r->rc, idn = r->idn_rc;
        int fl = (r->is_ipv4 ? 1 : 0) | (r->is_ipv6 ? 2 : 0) | (r->is_domain ? 4 : 0);
        int eexp = exp, bad = 0;
        eav_result_free (r);
        cnt.calls++; cnt.checked++; if (exp != 2) cnt.pinned++;
        rcs[tld][m] = rc; fls[tld][m] = fl;

        if (exp == 3) {             /* 6531 host name: the converter may refuse the domain */
            if (rc == -EEAV_IDN_ERROR) { eexp = 2; if (fl != 0) bad = 1; }
            else eexp = (erc == NOPIN || erc >= 0) ? 1 : 0;
        }
        if (eexp == 1 && (rc < 0 || (erc != NOPIN && rc != erc))) bad = 2;
        if (eexp == 0 && (rc >= 0 || (erc != NOPIN && rc != erc))) bad = 2;
        if (bad == 2)
            viol ("email", tld ? "decision-tld" : "decision", mode, ob, b, n, erc == NOPIN ? eexp : erc, rc, mrc);
        else if (eexp != 2 && eflag != -1 && fl != eflag)
            viol ("email", "flag", mode, ob * 2 + tld, b, n, eflag, fl, rc);
        else if (bad == 1 || !(fl == 0 || fl == 1 || fl == 2 || fl == 4) || (rc >= 0 && fl == 0) || rc > 9
                 || (!tld && rc > 0))
            viol ("email", "record", mode, ob * 2 + tld, b, n, rc, fl, idn);
        else if (rc != mrc || fl != mfl)
            { cnt.drift++; email_event (f_drift, ob, mode, tld, b, n, rc, fl, idn, mrc, mfl); }

        /* C01: the high-level function equals the composition of the public per-part validators */
        if (at >= 1 && at < n && at - 1 <= 64) {
            const char *L = p, *D = p + at, *end = p + n;
            int lrc = locals[m].f (L, L + at - 1), want = 1000, widn = 0;
            /* the local part handed over is delimited by '@', not NUL: also try it NUL-terminated */
            rcl[m] = lrc;
            if (lrc != 0) want = lrc;
            else if (*D != '[') {
                if (m < 3) {
                    int drc = is_ascii_domain (D, end);
                    if (drc != 0) want = drc;
                    else if (!tld) want = 0;
                    else if (is_special_domain (D, end)) want = TLD_TYPE_SPECIAL;
                    else { const char *dot = strrchr (D, '.'); want = dot ? is_tld (dot + 1, end) : -EEAV_DOMAIN_NOT_FQDN; }
                } else {
                    want = is_utf8_domain (&widn, D, end, tld);
                    if (widn != idn) viol ("email", "composition-idn", mode, ob * 2 + tld, b, n, widn, idn, rc);
                }
            }
            cnt.calls++;
            if (want != 1000 && want != rc)
                viol ("email", "composition", mode, ob * 2 + tld, b, n, want, rc, lrc);
        }
        unplace ();

        /* C01/C15: the object selects the rules of the mode chosen before eav_setup */
        {
            eav_t ev;
            int ret, err;
            const char *msg;
            memset (&ev, 0x5a, sizeof ev);          /* whatever was in memory before eav_init */
            eav_init (&ev);
            ev.rfc = (EAV_RFC) m;
            ev.tld_check = tld;
            ev.allow_tld = ALLOW_ALL;
            if (eav_setup (&ev) != 0) viol ("email", "eav_setup refused a defined mode", mode, ob, b, n, 0, 1, 0);
            p = place (b, n, m & 1, -1);
            ret = eav_is_email (&ev, p, n);
            unplace ();
            err = ev.errcode;
            msg = eav_errstr (&ev);
            cnt.calls++;
            if (ev.result == NULL || ev.result->rc != rc || ret != (rc >= 0) || err != (rc < 0 ? -rc : 0)
                || ((ev.result->is_ipv4 ? 1 : 0) | (ev.result->is_ipv6 ? 2 : 0) | (ev.result->is_domain ? 4 : 0)) != fl)
                viol ("email", "eav-level", mode, ob * 2 + tld, b, n, rc, ev.result ? ev.result->rc : 1000, err);
            else if (msg == NULL || (ret == 0 && msg[0] == 0))
                viol ("email", "eav-message", mode, ob * 2 + tld, b, n, rc, err, 0);
            eav_free (&ev);
        }
    }
    /* C12 relations on the observed results */
    for (int tld = 0; tld < 2; tld++) {
        int *r = rcs[tld], *f = fls[tld];
        if (c12) {
            if (!(r[0] == r[1] && r[1] == r[2] && f[0] == f[1] && f[1] == f[2]))
                viol ("email", "cross-mode", 0, ob * 2 + tld, b, n, r[0], r[1], r[2]);
            else if (!(r[3] == r[0] || r[3] == -EEAV_IDN_ERROR))
                viol ("email", "cross-mode-6531", 6531, ob * 2 + tld, b, n, r[0], r[3], f[3]);
        }
        if (r[1] >= 0 && r[0] < 0)
            viol ("email", "cross-inclusion", 0, ob * 2 + tld, b, n, r[0], r[1], 0);
        for (int m = 1; m < 3; m++)         /* same domain part, local part fine in both modes */
            if (rcl[0] == 0 && rcl[m] == 0 && (r[0] != r[m] || f[0] != f[m]))
                viol ("email", "cross-domain", emails[m].mode, ob * 2 + tld, b, n, r[0], r[m], f[m]);
    }
}

/* ------------------------------------------------------------------ */
int
main (int argc, char **argv)
{
    char *line = NULL; size_t cap = 0; ssize_t r;
    long *v = NULL; int vcap = 0;

    if (argc < 2) die ("usage: replay OUTDIR [stride]");
    if (argc > 2) stride = atol (argv[2]);
    common_init (argv[1], stride);

    while ((r = getline (&line, &cap, stdin)) > 0) {
        if (r < 3 || line[0] != '"' || line[1] != '[') continue;
        int nv = parse_ints (line + 2, &v, &vcap);
        if (nv < 1) continue;
        set_current (line);
        cnt.vectors++;
        switch (v[0]) {
        case 1: do_local (v, nv); break;
        case 2: do_host (v, nv); break;
        case 3: do_ip (v, nv); break;
        case 5: do_email (v, nv); break;
        default: die ("unknown vector kind");
        }
    }
    common_finish ();
    return 0;
}
