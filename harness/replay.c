/*
 * replay.c - direction A of the binding: executes vectors printed by TLC
 * against the real libeav built from /repo's working tree.
 *
 * input  (stdin): TLC output; vector lines look like  "[K,a,b,...]"
 * output (files in argv[1] directory):
 *    viol.ndjson   observed outcome outside what layer P allows
 *    drift.ndjson  observed outcome differs from layer M's prediction (trace for TLC, direction B)
 *    summary.json  counters
 *    current.txt   the vector being executed (for crash attribution)
 *
 * Every input string is executed twice: right-aligned (its terminator is
 * the last byte before a PROT_NONE page) and left-aligned (its first byte
 * is the first byte after one), so a read before the string or past the
 * terminator faults at once; every STRIDE-th vector the input pages are
 * also made read-only during the call.
 */
#define _GNU_SOURCE
#include <stdio.h>
#include <stdlib.h>
#include <string.h>
#include <signal.h>
#include <unistd.h>
#include <fcntl.h>
#include <sys/mman.h>
#include <eav.h>
#include <eav/auto_tld.h>
#include <idn2.h>
#include "common.h"

static long stride = 8;

/* ---- the three IDN backends expose different signatures (include/eav.h) ---- */
#if defined(HAVE_IDNKIT)
extern long adapter_ctx_live, adapter_ctx_bad, adapter_nullctx_use;
static idn_resconf_t g_ctx;
static idn_action_t g_act = IDN_ENCODE_REGIST;
static eav_result_t *e6531 (const char *p, size_t n, bool t) { return is_6531_email (g_ctx, g_act, p, n, t); }
static int utf8dom (int *r, const char *s, const char *e, bool t)
{ idn_result_t rr = 0; int x = is_utf8_domain (g_ctx, g_act, &rr, s, e, t); *r = (int) rr; return x; }
#define IDN_MSG(c) idn_result_tostring (c)
#define IDNRC(c) ((int) (c))
#define BACKEND "idnkit"
#elif defined(HAVE_LIBIDN)
#include <idna.h>
#define e6531 is_6531_email
#define utf8dom is_utf8_domain
#define IDN_MSG(c) idna_strerror (c)
#define IDNRC(c) ((int) (c) > 0 ? 5000 - (int) (c) : (int) (c))     /* the adapter's positive image of the converter's code */
#define BACKEND "idn"
#else
#define e6531 is_6531_email
#define utf8dom is_utf8_domain
#define IDN_MSG(c) idn2_strerror (c)
#define IDNRC(c) ((int) (c))
#define BACKEND "idn2"
#endif

/* ------------------------------------------------------------------ */
/* kind 1: local part.  [1, optbits, n, bytes.., c12, (exp, mrc) x 4 modes]
 * c12 = 1: the spec says the cross-mode relation of C12 applies (all four codes equal) */
typedef int (*local_f)(const char *, const char *);
static const struct { int mode; local_f f; } locals[4] = {
    { 822, is_822_local }, { 5321, is_5321_local },
    { 5322, is_5322_local }, { 6531, is_6531_local } };

static void
do_local (long *v, int nv)
{
    int ob = (int) v[1], n = (int) v[2];
    const long *b = v + 3, *x = v + 3 + n + 1;
    int c12 = (int) v[3 + n];
    int got[4];
    if (nv != 3 + n + 9) die ("bad local vector");
    for (int m = 0; m < 4; m++) {
        int exp = (int) x[2*m], mrc = (int) x[2*m+1];
        int rc[2];
        for (int side = 0; side < 2; side++) {
            const char *p = place (b, n, side, -1);
            rc[side] = locals[m].f (p, p + n);
            unplace ();
        }
        cnt.calls += 2;
        if (rc[0] != rc[1])
            viol ("local", "placement-dependent result", locals[m].mode, ob, b, n, exp, rc[0], rc[1]);
        else if ((exp == 1 && rc[0] != 0) || (exp == 0 && rc[0] >= 0) || rc[0] > 0)
            viol ("local", "decision", locals[m].mode, ob, b, n, exp, rc[0], mrc);
        else if (rc[0] != mrc)
            drift_local (locals[m].mode, ob, b, n, rc[0], mrc);
        if (exp != 2) cnt.pinned++;
        cnt.checked++;
        got[m] = rc[0];
    }
    if (c12 && !(got[0] == got[1] && got[1] == got[2] && got[2] == got[3]))
        viol ("local", "cross-mode", 0, ob, b, n, got[0], got[1], got[3]);
    if (got[1] == 0 && got[0] != 0)
        viol ("local", "cross-inclusion", 0, ob, b, n, got[0], got[1], 0);
}

/* ------------------------------------------------------------------ */
/* kind 2: host name.  [2, optbits, n, bytes.., exp, mrc] */
static void
do_host (long *v, int nv)
{
    int ob = (int) v[1], n = (int) v[2];
    const long *b = v + 3;
    int exp = (int) v[3 + n], mrc = (int) v[4 + n];
    int rc[2], ascii = 1;
    if (nv != 3 + n + 2) die ("bad host vector");
    for (int side = 0; side < 2; side++) {
        const char *p = place (b, n, side, -1);
        rc[side] = is_ascii_domain (p, p + n);
        unplace ();
    }
    cnt.calls += 2; cnt.checked++; cnt.pinned++;
    if (rc[0] != rc[1])
        viol ("host", "placement-dependent result", 0, ob, b, n, exp, rc[0], rc[1]);
    else if ((exp == 1) != (rc[0] == 0) || rc[0] > 0)
        viol ("host", "decision", 0, ob, b, n, exp, rc[0], mrc);
    else if (rc[0] != mrc)
        drift_ev ("host", 0, ob, b, n, rc[0], mrc);
    /* mode 6531 applies the same rules to the A-label form: for an all-ASCII
     * string nothing that violates them may be accepted */
    for (int i = 0; i < n; i++) if (b[i] >= 128) ascii = 0;
    if (ascii && n > 0) {
        int idn = 0, r;
        const char *p = place (b, n, 0, -1);
        r = utf8dom (&idn, p, p + n, false);
        unplace ();
        cnt.calls++; cnt.checked++; cnt.pinned += (exp == 0);
        if (r == 0 && exp == 0)
            viol ("host", "utf8-domain accepts an invalid host name", 6531, ob, b, n, exp, r, idn);
        else if (r > 0 || (r < 0 && r != rc[0] && r != -EEAV_IDN_ERROR))
            viol ("host", "utf8-domain code", 6531, ob, b, n, exp, r, rc[0]);
    }
}

/* ------------------------------------------------------------------ */
/* kind 3: address literal.
 * [3, n, domain.., exp, family, mrc, mv4, mv6, ni, inner.., v4exp, v6exp, m_ipv4, m_ipv6, m_ipaddr] */
typedef eav_result_t *(*email_f)(const char *, size_t, bool);
static const struct { int mode; email_f f; } emails[4] = {
    { 822, is_822_email }, { 5321, is_5321_email },
    { 5322, is_5322_email }, { 6531, e6531 } };

static void
sandwich (const char *what, const long *b, int n, int exp, int got, int model)
{
    cnt.checked++; if (exp != 2) cnt.pinned++;
    /* the properties speak about address literals inside a domain part, not about the bare
     * is_ipv4 / is_ipv6 / is_ipaddr entry points: a disagreement here is model drift only */
    if ((exp == 1 && got != 1) || (exp == 0 && got != 0) || got != model)
        drift_ev (what, 0, 0, b, n, got, model);
}

static void
do_ip (long *v, int nv)
{
    int n = (int) v[1];
    const long *d = v + 2, *x = v + 2 + n;
    int exp = (int) x[0], fam = (int) x[1], mrc = (int) x[2];
    int ni = (int) x[5];
    const long *in = x + 6, *y = x + 6 + ni;
    static long buf[1 << 16];
    int first_rc = 0, first_fl = 0;

    if (nv != 2 + n + 6 + ni + 5) die ("bad ip vector");
    buf[0] = 'x'; buf[1] = '@';
    for (int i = 0; i < n; i++) buf[2 + i] = d[i];
    for (int m = 0; m < 4; m++) for (int tld = 0; tld < 2; tld++) {
        const char *p = place (buf, n + 2, (m + tld) & 1, -1);
        eav_result_t *r = emails[m].f (p, n + 2, tld);
        int rc = r->rc, fl = (r->is_ipv4 ? 1 : 0) | (r->is_ipv6 ? 2 : 0) | (r->is_domain ? 4 : 0);
        unplace ();
        eav_result_free (r);
        cnt.calls++; cnt.checked++; if (exp != 2) cnt.pinned++;
        if ((exp == 1 && rc != 0) || (exp == 0 && rc >= 0) || rc > 0)
            viol ("literal", "decision", emails[m].mode, tld, d, n, exp, rc, mrc);
        else if (rc == 0 && fl != (fam == 4 ? 1 : 2))
            viol ("literal", "family flag", emails[m].mode, tld, d, n, fam, fl, mrc);
        else if (rc < 0 && fl != 0)
            viol ("literal", "flag set on rejection", emails[m].mode, tld, d, n, 0, fl, rc);
        else if (rc != mrc && m == 0 && tld == 0)
            drift_ev ("literal", emails[m].mode, 0, d, n, rc, mrc);
        if (m == 0 && tld == 0) { first_rc = rc; first_fl = fl; }
        else if (rc != first_rc || fl != first_fl)
            viol ("literal", tld ? "mode/tld_check dependent" : "mode dependent", emails[m].mode, tld, d, n, first_rc, rc, fl);
    }
    /* the bare public validators on the NUL-terminated inner string */
    {
        int colon = 0;
        const char *p;
        for (int i = 0; i < ni; i++) if (in[i] == ':') colon = 1;
        p = place (in, ni, 0, -1);
        /* C01: an untagged literal starting with a digit is judged by the public is_ipaddr on the bracket content; whatever the
         * high-level functions decide must be that validator's decision (the spelling is tolerated by C05, not pinned) */
        if (n >= 3 && d[0] == '[' && d[n - 1] == ']' && ni == n - 2 && ni > 0 && in[0] >= '0' && in[0] <= '9' && n > 8) {
            int comp;
            const char *q;
            unplace ();
            q = place (buf, n + 2, 0, -1);               /* the whole address "x@[...]": the content is validated in place */
            comp = is_ipaddr (q + 3, q + 2 + n - 1);
            unplace ();
            p = place (in, ni, 0, -1);
            cnt.checked++; cnt.pinned++;
            if ((comp != 0) != (first_rc == 0))
                viol ("literal", "composition", 0, 0, d, n, comp ? 0 : -EEAV_IPADDR_INVALID, first_rc, mrc);
        }
        sandwich ("ipv4", in, ni, (int) y[0], is_ipv4 (p, p + ni), (int) y[2]);
        sandwich ("ipv6", in, ni, (int) y[1], is_ipv6 (p, p + ni), (int) y[3]);
        sandwich ("ipaddr", in, ni, colon ? (int) y[1] : (int) y[0], is_ipaddr (p, p + ni), (int) y[4]);
        unplace ();
        p = place (in, ni, 1, -1);
        if (is_ipv4 (p, p + ni) != is_ipv4 (p, p + ni)) die ("nondeterministic");
        unplace ();
        cnt.calls += 4;
    }
}

/* ------------------------------------------------------------------ */
/* kind 5: whole address.
 * [5, optbits, n, bytes.., at, c12, 8 x (exp, erc, eflag, mrc, mflag)]  (tld off x 4 modes, tld on x 4 modes) */
#define NOPIN 99
#define ISDIGIT_C(ch) ((ch) >= '0' && (ch) <= '9')
#define ALLOW_ALL 0x7fc

static void
email_event (FILE *f, int ob, int mode, int tld, const long *b, int n, int rc, int fl, int idn, int mrc, int mfl)
{
    fprintf (f, "{\"e\":\"email\",\"o\":%d,\"mode\":%d,\"tld\":%d,\"in\":", ob, mode, tld);
    put_bytes (f, b, n);
    fprintf (f, ",\"rc\":%d,\"fl\":%d,\"idn\":%d,\"mrc\":%d,\"mfl\":%d", rc, fl, idn, mrc, mfl);
    if (mode == 6531) {
        /* the environment: what the converter itself answers for the domain part */
        int at = -1;
        for (int i = 0; i < n; i++) if (b[i] == '@') at = i;
        if (at >= 0 && at + 1 < n && b[at + 1] != '[') {
            char *tmp = malloc (n - at), *out = NULL;
            int code;
            for (int i = at + 1; i < n; i++) tmp[i - at - 1] = (char) b[i];
            tmp[n - at - 1] = 0;
            code = idn2_to_ascii_8z (tmp, &out, IDN2_NONTRANSITIONAL);
            fprintf (f, ",\"cc\":%d,\"co\":", code);
            if (code == IDN2_OK && out) put_ubytes (f, (unsigned char *) out, (int) strlen (out));
            else fputs ("[]", f);
            if (out) idn2_free (out);
            free (tmp);
        }
    }
    fputs ("}\n", f);
}

static void
do_email (long *v, int nv)
{
    int ob = (int) v[1], n = (int) v[2];
    const long *b = v + 3, *x = v + 3 + n;
    int at = (int) x[0], c12 = (int) x[1];
    int rcs[2][4], fls[2][4], rcl[4];
    const long *le;
    if (nv != 3 + n + 2 + 4 + 40) die ("bad email vector");
    le = x + 2;
    x += 6;
    for (int m = 0; m < 4; m++) rcl[m] = 1;
    for (int tld = 0; tld < 2; tld++) for (int m = 0; m < 4; m++) {
        const long *e = x + 5 * (tld * 4 + m);
        int exp = (int) e[0], erc = (int) e[1], eflag = (int) e[2], mrc = (int) e[3], mfl = (int) e[4];
        int mode = emails[m].mode;
        const char *p = place (b, n, (m + tld) & 1, -1);
        eav_result_t *r = emails[m].f (p, n, tld);
        int rc = r->rc, idn = IDNRC (r->idn_rc);
        int fl = (r->is_ipv4 ? 1 : 0) | (r->is_ipv6 ? 2 : 0) | (r->is_domain ? 4 : 0);
        int eexp = exp, bad = 0;
#ifdef EAV_EXTRA
        /* C16: lpart / domain reproduce the two halves of an accepted address, NULL when syntactically invalid */
        if (rc >= 0 && exp != 2) {
            int dl = n - at, lit = (at < n && b[at] == '['), okx = r->lpart != NULL && r->domain != NULL;
            if (okx) {
                okx = (int) strlen (r->lpart) == at - 1 && memcmp (r->lpart, p, at - 1) == 0;
                if (lit) okx = okx && (int) strlen (r->domain) == dl - 2 && memcmp (r->domain, p + at + 1, dl - 2) == 0;
                else okx = okx && (int) strlen (r->domain) == dl && memcmp (r->domain, p + at, dl) == 0;
            }
            if (!okx) viol ("email", "extra strings", mode, ob * 2 + tld, b, n, 1, r->lpart != NULL, r->domain != NULL);
        } else if (exp == 0 && erc == NOPIN && eflag == 0 && (r->lpart != NULL || r->domain != NULL))
            viol ("email", "extra strings set on a syntactically invalid address", mode, ob * 2 + tld, b, n, 0, r->lpart != NULL, r->domain != NULL);
        else if (exp == 3 && rc < 0 && fl == 0 && (r->lpart != NULL || r->domain != NULL) && rc != -EEAV_DOMAIN_NOT_FQDN && rc != -EEAV_TLD_INVALID)
            viol ("email", "extra strings set on a rejected domain", mode, ob * 2 + tld, b, n, 0, r->lpart != NULL, r->domain != NULL);
#endif
        eav_result_free (r);
        cnt.calls++; cnt.checked++; if (exp != 2) cnt.pinned++;
        rcs[tld][m] = rc; fls[tld][m] = fl;

        if (exp == 3) {             /* 6531 host name: the converter may refuse the domain */
            if (rc == -EEAV_IDN_ERROR) { eexp = 2; if (fl != 0) bad = 1; }
            else eexp = (erc == NOPIN || erc >= 0) ? 1 : 0;
        }
        if (eexp == 1 && (rc < 0 || (erc != NOPIN && rc != erc))) bad = 2;
        if (eexp == 0 && (rc >= 0 || (erc != NOPIN && rc != erc))) bad = 2;
        if (bad == 2)
            viol ("email", (rc >= 0 && le[m] == 0) ? "decision-local" : tld ? "decision-tld" : "decision", mode, ob, b, n,
                  erc == NOPIN ? eexp : erc, rc, mrc);
        else if (eexp != 2 && eflag != -1 && fl != eflag)
            viol ("email", "flag", mode, ob * 2 + tld, b, n, eflag, fl, rc);
        else if (bad == 1 || !(fl == 0 || fl == 1 || fl == 2 || fl == 4) || (rc >= 0 && fl == 0) || rc > 9
                 || (!tld && rc > 0))
            viol ("email", "record", mode, ob * 2 + tld, b, n, rc, fl, idn);
        else if (rc != mrc || fl != mfl)
            { cnt.drift++; email_event (f_drift, ob, mode, tld, b, n, rc, fl, idn, mrc, mfl); }

        /* C01: the high-level function equals the composition of the public per-part validators */
        if (at >= 1 && at < n && at - 1 <= 64) {
            const char *L = p, *D = p + at, *end = p + n;
            int lrc = locals[m].f (L, L + at - 1), want = 1000, widn = 0;
            /* the local part handed over is delimited by '@', not NUL: also try it NUL-terminated */
            rcl[m] = lrc;
            int alt = 1000;        /* when both halves are invalid either reason is a composition of the part validators */
            if (lrc != 0) {
                want = lrc;
                if (*D != '[') alt = m < 3 ? is_ascii_domain (D, end) : utf8dom (&widn, D, end, tld);
                else alt = rc;     /* literal: no public composite validator to compare with */
                if (alt >= 0) alt = 1000;
            }
            else if (*D == '[' && end[-1] == ']' && end - D > 8) {
                /* (literals of at most 8 octets, brackets included, are shorter than "[1.2.3.4]": the library refuses them before it
                 * looks inside; only untagged IPv6 spellings such as [1::], which C05 merely tolerates, are that short) */
                /* literal: the public validators decide the two spellings the properties require (plain dotted quad, exact
                 * "IPv6:" tag); the untagged IPv6 spelling is only tolerated and is left alone */
                const char *c = D + 1, *ce = end - 1;
                int colon = memchr (c, ':', ce - c) != NULL;
                if (!colon && ISDIGIT_C (*c)) want = is_ipv4 (c, ce) ? 0 : -EEAV_IPADDR_INVALID;
                else if (colon && ISDIGIT_C (*c)) {
                    /* untagged spelling starting with a digit: whatever is decided must be what the public is_ipaddr says of the
                     * bracket content, called in place (start / end pointers into the address, as the library itself would) */
                    want = is_ipaddr (c, ce) ? 0 : -EEAV_IPADDR_INVALID;
                }
                else if (ce - c > 5 && memcmp (c, "IPv6:", 5) == 0) want = is_ipv6 (c + 5, ce) ? 0 : -EEAV_IPADDR_INVALID;
                if (want == -EEAV_IPADDR_INVALID && rc < 0) want = rc;      /* which ip-addr code is reported is not pinned */
            }
            else if (*D != '[') {
                if (m < 3) {
                    int drc = is_ascii_domain (D, end);
                    if (drc != 0) want = drc;
                    else if (!tld) want = 0;
                    else if (is_special_domain (D, end)) want = TLD_TYPE_SPECIAL;
                    else { const char *dot = strrchr (D, '.'); want = dot ? is_tld (dot + 1, end) : -EEAV_DOMAIN_NOT_FQDN; }
                } else {
                    want = utf8dom (&widn, D, end, tld);
                    if (IDNRC (widn) != idn && lrc == 0) viol ("email", "composition-idn", mode, ob * 2 + tld, b, n, widn, idn, rc);
                }
            }
            cnt.calls++;
            if (want != 1000 && want != rc && !(alt != 1000 && alt == rc))
                viol ("email", "composition", mode, ob * 2 + tld, b, n, want, rc, lrc);
        }
        unplace ();

        /* C01/C15: the object selects the rules of the mode chosen before eav_setup */
        {
            eav_t ev;
            int ret, err;
            const char *msg;
            memset (&ev, 0x5a, sizeof ev);          /* whatever was in memory before eav_init */
            eav_init (&ev);
            ev.rfc = (EAV_RFC) m;
            ev.tld_check = tld;
            ev.allow_tld = ALLOW_ALL;
            if (eav_setup (&ev) != 0) viol ("email", "eav_setup refused a defined mode", mode, ob, b, n, 0, 1, 0);
            p = place (b, n, m & 1, -1);
            ret = eav_is_email (&ev, p, n);
            unplace ();
            err = ev.errcode;
            msg = eav_errstr (&ev);
            cnt.calls++;
            if (ev.result == NULL || ev.result->rc != rc || ret != (rc >= 0) || err != (rc < 0 ? -rc : 0)
                || ((ev.result->is_ipv4 ? 1 : 0) | (ev.result->is_ipv6 ? 2 : 0) | (ev.result->is_domain ? 4 : 0)) != fl)
                viol ("email", "eav-level", mode, ob * 2 + tld, b, n, rc, ev.result ? ev.result->rc : 1000, err);
            else if (msg == NULL || (ret == 0 && msg[0] == 0))
                viol ("email", "eav-message", mode, ob * 2 + tld, b, n, rc, err, 0);
            eav_free (&ev);
        }
    }
    /* C12 relations on the observed results */
    for (int tld = 0; tld < 2; tld++) {
        int *r = rcs[tld], *f = fls[tld];
        if (c12) {
            if (!(r[0] == r[1] && r[1] == r[2] && f[0] == f[1] && f[1] == f[2]))
                viol ("email", "cross-mode", 0, ob * 2 + tld, b, n, r[0], r[1], r[2]);
            else if (!(r[3] == r[0] || r[3] == -EEAV_IDN_ERROR))
                viol ("email", "cross-mode-6531", 6531, ob * 2 + tld, b, n, r[0], r[3], f[3]);
        }
        if (r[1] >= 0 && r[0] < 0)
            viol ("email", "cross-inclusion", 0, ob * 2 + tld, b, n, r[0], r[1], 0);
        for (int m = 1; m < 3; m++)         /* same domain part, local part fine in both modes */
            if (rcl[0] == 0 && rcl[m] == 0 && (r[0] != r[m] || f[0] != f[m]))
                viol ("email", "cross-domain", emails[m].mode, ob * 2 + tld, b, n, r[0], r[m], f[m]);
    }
}

/* ------------------------------------------------------------------ */
/* kind 9: policy with a caller-installed callback.  [9, modeEnum, mask, rc, eret, eerr] */
static int cb_rc;
static eav_result_t *
#if defined(HAVE_IDNKIT)
cb_fixed_u (idn_resconf_t c, idn_action_t a, const char *email, size_t length, bool tld_check)
{
    eav_result_t *r = calloc (1, sizeof *r);
    (void) c; (void) a; (void) email; (void) length; (void) tld_check;
    if (!r) die ("oom");
    r->rc = cb_rc;
    return r;
}
static eav_result_t *
#else
#define cb_fixed_u cb_fixed
#endif
cb_fixed (const char *email, size_t length, bool tld_check)
{
    eav_result_t *r = calloc (1, sizeof *r);
    (void) email; (void) length; (void) tld_check;
    if (!r) die ("oom");
    r->rc = cb_rc;
    return r;
}

static void
do_policy (long *v, int nv)
{
    eav_t ev;
    int ret, err;
    const char *msg;
    long in[3];
    if (nv != 6) die ("bad policy vector");
    in[0] = v[1]; in[1] = v[2]; in[2] = v[3];
    eav_init (&ev);
    ev.rfc = (EAV_RFC) v[1];
    ev.allow_tld = (int) v[2];
    if (eav_setup (&ev) != 0) die ("setup");
    /* the callback fields are public: install one that returns the wanted result code */
    if (ev.utf8) ev.utf8_cb = cb_fixed_u; else ev.ascii_cb = cb_fixed;
    cb_rc = (int) v[3];
    ret = eav_is_email (&ev, "x", 1);
    err = ev.errcode;
    msg = eav_errstr (&ev);
    cnt.calls++; cnt.checked++; cnt.pinned++;
    if (ret != v[4] || err != v[5])
        viol ("policy", "callback", (int) v[1], (int) v[2], in, 3, v[4] * 100 + v[5], ret * 100 + err, v[3]);
    else if (msg == NULL || (ret == 0 && !*msg))
        viol ("policy", "message", (int) v[1], (int) v[2], in, 3, 0, err, v[3]);
    eav_free (&ev);
}

/* kind 10: defaults of eav_init.  [10, rfc, tld, allow] */
static void
do_defaults (long *v, int nv)
{
    eav_t ev;
    long in[3];
    if (nv != 4) die ("bad defaults vector");
    memset (&ev, 0xa5, sizeof ev);
    eav_init (&ev);
    in[0] = ev.rfc; in[1] = ev.tld_check; in[2] = ev.allow_tld;
    cnt.calls++; cnt.checked++; cnt.pinned++;
    if (ev.rfc != v[1] || ev.tld_check != v[2] || ev.allow_tld != v[3])
        viol ("policy", "defaults", 0, 0, in, 3, v[3], ev.allow_tld, ev.rfc);
}

/* kind 11: policy on a real address.  [11, modeEnum, tld, mask, n, bytes.., pinned, eret, eerr] */
static void
do_policy_addr (long *v, int nv)
{
    eav_t ev;
    int n = (int) v[4], ret, err, pinned, eret, eerr;
    const long *b = v + 5;
    const char *p;
    if (nv != 5 + n + 3) die ("bad policy-addr vector");
    pinned = (int) v[5 + n]; eret = (int) v[6 + n]; eerr = (int) v[7 + n];
    eav_init (&ev);
    ev.rfc = (EAV_RFC) v[1];
    ev.tld_check = v[2] != 0;
    ev.allow_tld = (int) v[3];
    if (eav_setup (&ev) != 0) die ("setup");
    p = place (b, n, 0, -1);
    ret = eav_is_email (&ev, p, n);
    unplace ();
    err = ev.errcode;
    cnt.calls++; cnt.checked++; cnt.pinned += pinned;
    if (ret != eret || err != eerr) {
        /* the policy pins the decision and the class error; which syntax error is reported is not its business */
        int policy_err = (eerr == 0 || eerr >= EEAV_TLD_NOT_ASSIGNED || err == 0 || err >= EEAV_TLD_NOT_ASSIGNED);
        if (pinned && !(v[1] == 3 && err == EEAV_IDN_ERROR) && (ret != eret || policy_err))
            viol ("policy", "address", (int) v[1], (int) (v[3] * 2 + v[2]), b, n, eret * 100 + eerr, ret * 100 + err, 0);
        else
            drift_ev ("policy", (int) v[1], (int) (v[3] * 2 + v[2]), b, n, ret * 100 + err, eret * 100 + eerr);
    }
    eav_free (&ev);
}

/* ------------------------------------------------------------------ */
/* kind 8: pool entry [8, idx, n, bytes..];  kind 7: history [7, nsteps, 11 ints per step]
 * step = op, a1, a2, obs1, obs2, errcode, rc, flags, confirmed mode, tld, allow
 * op: 1 init 2 set rfc 3 set tld_check 4 set allow_tld 5 setup 6 is_email(pool idx, fault) 7 errstr 8 free */
#define POOL_MAX 4096
static unsigned char *pool_b[POOL_MAX];
static int pool_n[POOL_MAX];
#ifdef VERIF_WRAP
extern int wrap_fault_code, wrap_fault_buffer, wrap_track;   /* see wrap.c */
extern long wrap_bad_free, wrap_conv_calls;
extern long wrap_live_allocs (void);
extern void wrap_reset (void);
#endif

static void
do_pool (long *v, int nv)
{
    int idx = (int) v[1], n = (int) v[2];
    if (nv != 3 + n || idx < 0 || idx >= POOL_MAX) die ("bad pool vector");
    free (pool_b[idx]);
    pool_b[idx] = malloc (n + 1);
    for (int i = 0; i < n; i++) pool_b[idx][i] = (unsigned char) v[3 + i];
    pool_b[idx][n] = 0;
    pool_n[idx] = n;
}

static int
res_flags (const eav_result_t *r)
{
    return (r->is_ipv4 ? 1 : 0) | (r->is_ipv6 ? 2 : 0) | (r->is_domain ? 4 : 0);
}

static int
mode_enum (int mode)
{
    return mode == 822 ? 0 : mode == 5321 ? 1 : mode == 5322 ? 2 : 3;
}

static void
hist_viol (const char *what, const long *v, int nsteps, int at, long exp, long got, long extra)
{
    long buf[1 + 11 * 64];
    int k = 0;
    buf[k++] = at;
    for (int i = 0; i < nsteps * 11 && k < (int) (sizeof buf / sizeof buf[0]); i++) buf[k++] = v[2 + i];
    viol ("history", what, 0, at, buf, k, exp, got, extra);
}

static void
do_history (long *v, int nv)
{
    int nsteps = (int) v[1];
    eav_t *ev = malloc (sizeof *ev);          /* uninitialised heap object, as the documentation allows */
    int live = 0;
    char lastmsg[256] = "";
    if (nv != 2 + nsteps * 11) die ("bad history vector");
#ifdef VERIF_WRAP
    wrap_reset ();
    wrap_track = 1;
    wrap_fault_buffer = (int) (cnt.vectors & 1);      /* alternate: failing converter with / without a buffer */
#endif
    for (int k = 0; k < nsteps; k++) {
        const long *s = v + 2 + 11 * k;
        int op = (int) s[0];
        cnt.calls++;
        switch (op) {
        case 1: eav_init (ev); live = 1; break;
        case 2: ev->rfc = (EAV_RFC) s[1]; break;
        case 3: ev->tld_check = s[1] != 0; break;
        case 4: ev->allow_tld = (int) s[1]; break;
        case 5: {
            int r = eav_setup (ev);
            cnt.checked++; cnt.pinned++;
            if (r != s[3]) hist_viol ("setup return", v, nsteps, k, s[3], r, ev->rfc);
        } break;
        case 6: {
            int idx = (int) s[1], fault = (int) s[2], ret, err, rc, fl;
            const char *p, *msg;
            eav_t fr;
            int fret, ferr, frc, ffl;
            const char *fmsg;
#ifdef VERIF_WRAP
            wrap_fault_code = fault;
#else
            if (fault != 0) die ("fault plan needs the wrap build");
#endif
            p = place_bytes (pool_b[idx], pool_n[idx], k & 1);
#ifdef VERIF_WRAP
            long conv_before = wrap_conv_calls;
#endif
            ret = eav_is_email (ev, p, pool_n[idx]);
            err = ev->errcode; rc = ev->result->rc; fl = res_flags (ev->result);
            msg = eav_errstr (ev);
            snprintf (lastmsg, sizeof lastmsg, "%s", msg ? msg : "(null)");
            /* C13: the same call on a fresh object with the same settings */
            eav_init (&fr);
            fr.rfc = (EAV_RFC) mode_enum ((int) s[8]);
            fr.tld_check = s[9] != 0;
            fr.allow_tld = (int) s[10];
            if (eav_setup (&fr) != 0) die ("fresh setup");
#ifdef VERIF_WRAP
            wrap_fault_code = fault;
#endif
            fret = eav_is_email (&fr, p, pool_n[idx]);
            ferr = fr.errcode; frc = fr.result->rc; ffl = res_flags (fr.result);
            fmsg = eav_errstr (&fr);
            unplace ();
            cnt.checked++; cnt.pinned++;
            if (ret != fret || err != ferr || rc != frc || fl != ffl || strcmp (msg ? msg : "(null)", fmsg ? fmsg : "(null)") != 0)
                hist_viol ("outcome differs from a fresh object with the same settings", v, nsteps, k, fret * 100 + ferr, ret * 100 + err, rc);
            else if ((ret == 1) != (err == 0) || (rc < 0 && err != -rc) || msg == NULL || (ret == 0 && !*msg))
                hist_viol ("diagnostics inconsistent", v, nsteps, k, ret, err, rc);
            else if (fault != 0 && rc == -EEAV_IDN_ERROR
                     && (IDNRC (ev->result->idn_rc) != fault || fl != 0 || strcmp (msg, idn2_strerror (fault)) != 0))
                hist_viol ("IDN failure not reported with the library's message", v, nsteps, k, fault, IDNRC (ev->result->idn_rc), fl);
#ifdef VERIF_WRAP
            /* C19: the converter was consulted and failed (with or without an output buffer): the address must be
             * rejected as an IDN error, whatever the buffer holds */
            else if (fault != 0 && wrap_conv_calls > conv_before
                     && (ret != 0 || err != EEAV_IDN_ERROR || fl != 0))
                hist_viol ("IDN failure not contained: converter failed but the address is not rejected as an IDN error", v, nsteps, k, fault, err, rc);
#endif
            else if (ret != s[3] || err != s[5] || rc != s[6] || fl != s[7]) {
                cnt.drift++;
                fprintf (f_drift, "{\"e\":\"hist\",\"step\":%d,\"idx\":%d,\"fault\":%d,\"ret\":%d,\"err\":%d,\"rc\":%d,\"fl\":%d,"
                         "\"mret\":%ld,\"merr\":%ld,\"mrc\":%ld,\"mfl\":%ld}\n", k, idx, fault, ret, err, rc, fl, s[3], s[5], s[6], s[7]);
            }
            eav_free (&fr);
#ifdef VERIF_WRAP
            wrap_fault_code = 0;
#endif
        } break;
        case 7: {
            const char *msg = eav_errstr (ev);
            cnt.checked++; cnt.pinned++;
            if (msg == NULL)
                hist_viol ("errstr NULL", v, nsteps, k, 0, 0, 0);
            else if (s[3] == EEAV_INVALID_RFC) {      /* after a refused eav_setup: must report the invalid-RFC condition */
                /* = what a fresh object reports after a refused setup, and not the "no error" text (wording is free) */
                eav_t f1, f2;
                char noerr[256], badrfc[256];
                const char *m1, *m2;
                eav_init (&f1); m1 = eav_errstr (&f1); snprintf (noerr, sizeof noerr, "%s", m1 ? m1 : "");
                eav_init (&f2); f2.rfc = (EAV_RFC) 7; (void) eav_setup (&f2); m2 = eav_errstr (&f2); snprintf (badrfc, sizeof badrfc, "%s", m2 ? m2 : "");
                eav_free (&f1); eav_free (&f2);
                if (!*msg || strcmp (msg, noerr) == 0 || strcmp (msg, badrfc) != 0)
                    hist_viol ("errstr after refused setup", v, nsteps, k, EEAV_INVALID_RFC, ev->errcode, 0);
            }
            else if (lastmsg[0] && strcmp (msg, lastmsg) != 0)
                hist_viol ("errstr does not describe the most recent validation", v, nsteps, k, s[3], ev->errcode, 0);
            else if (ev->errcode != s[3]) {
                cnt.drift++;
                fprintf (f_drift, "{\"e\":\"hist\",\"step\":%d,\"errstr\":%d,\"merr\":%ld}\n", k, ev->errcode, s[3]);
            }
        } break;
        case 8: eav_free (ev); live = 0; lastmsg[0] = 0; break;
        default: die ("bad op");
        }
#if defined(HAVE_IDNKIT)
        if (adapter_ctx_live < 0 || adapter_ctx_live > 1)      /* one eav_t owns at most one backend context */
            hist_viol ("backend contexts owned by one object", v, nsteps, k, 1, adapter_ctx_live, 0);
#endif
        /* the public settings belong to the caller: no call may change them behind his back */
        if (live && op >= 5 && op <= 7 && ((int) ev->tld_check != (int) s[9] || ev->allow_tld != (int) s[10]))
            hist_viol ("a call changed the caller's tld_check / allow_tld", v, nsteps, k, s[10], ev->allow_tld, ev->tld_check);
        if (op == 5 && s[3] != 0) snprintf (lastmsg, sizeof lastmsg, "%s", "");
        if (op == 1) lastmsg[0] = 0;
    }
    if (live) eav_free (ev);
#if defined(HAVE_IDNKIT)
    cnt.checked++; cnt.pinned++;
    if (adapter_ctx_live != 0)
        hist_viol ("backend context not released after eav_free", v, nsteps, nsteps, 0, adapter_ctx_live, 0);
    if (adapter_ctx_bad != 0)
        hist_viol ("backend context created twice or destroyed twice", v, nsteps, nsteps, 0, adapter_ctx_bad, 0);
    if (adapter_nullctx_use != 0)
        hist_viol ("conversion attempted with a destroyed or missing backend context", v, nsteps, nsteps, 0, adapter_nullctx_use, 0);
    adapter_ctx_live = 0; adapter_ctx_bad = 0; adapter_nullctx_use = 0;
#endif
#ifdef VERIF_WRAP
    wrap_track = 0;
    cnt.checked++; cnt.pinned++;
    if (wrap_live_allocs () != 0)
        hist_viol ("allocation not released after eav_free", v, nsteps, nsteps, 0, wrap_live_allocs (), 0);
    if (wrap_bad_free != 0)
        hist_viol ("release of memory that is not live (double free)", v, nsteps, nsteps, 0, wrap_bad_free, 0);
#endif
    free (ev);
}

/* ------------------------------------------------------------------ */
/* kind 13: robustness vector [13, shape, n, bytes..]: every public entry point on the string, both
 * placements, no expectation - the monitors (guard pages, sanitizers, valgrind, alarm) are the check.
 * kind 14: the same without the IDN converter (its cost is the environment's), for instruction counting. */
static long sink;
static void
do_robust (long *v, int nv, int with_idn)
{
    int n = (int) v[2];
    const long *b = v + 3;
    if (nv != 3 + n) die ("bad robust vector");
    alarm (with_idn ? 120 : 60);
    for (int side = 0; side < 2; side++) {
        const char *p = place (b, n, side, -1), *e = p + n;
        int idn = 0;
        for (int m = 0; m < 4; m++) sink += locals[m].f (p, e);
        sink += is_ascii_domain (p, e);
        sink += is_ipv4 (p, e) + is_ipv6 (p, e) + is_ipaddr (p, e);
        sink += is_special_domain (p, e);
        sink += is_tld (p, e);
        if (with_idn) sink += utf8dom (&idn, p, e, true);
        for (int m = 0; m < (with_idn ? 4 : 3); m++) for (int tld = 0; tld < 2; tld++) {
            eav_result_t *r = emails[m].f (p, n, tld);
            sink += r->rc;
            eav_result_free (r);
        }
        /* the object on the same string: a result record must exist afterwards and agree with the per-mode function */
        for (int m = 0; m < (with_idn ? 4 : 3); m++) {
            eav_t ev;
            eav_result_t *r = emails[m].f (p, n, true);
            int rc = r->rc, ret;
            eav_result_free (r);
            eav_init (&ev);
            ev.rfc = (EAV_RFC) m;
            ev.allow_tld = ALLOW_ALL;
            if (eav_setup (&ev) != 0) die ("setup");
            ret = eav_is_email (&ev, "a@x.com", 7);            /* an accepted address first: nothing of it may survive */
            ret = eav_is_email (&ev, p, n);
            if (ev.result == NULL || ev.result->rc != rc || ret != (rc >= 0) || ev.errcode != (rc < 0 ? -rc : 0))
                viol ("robust", "eav_is_email on a long input disagrees with the per-mode function or keeps a stale result", emails[m].mode, 0,
                      b, n > 300 ? 300 : n, rc, ev.result ? ev.result->rc : 1000, ev.errcode);
            eav_free (&ev);
        }
        unplace ();
        cnt.calls += 20;
    }
    alarm (0);
    cnt.checked++;
}

/* ------------------------------------------------------------------ */
/* kind 15: dump the compiled table (exported symbol tld_list) and look every label up: trace for Trace_Table */
static void
do_table (void)
{
    char path[600];
    FILE *f;
    int i = 0;
    snprintf (path, sizeof path, "%s/table.ndjson", outdir);
    if (!(f = fopen (path, "w"))) die ("open table");
    for (const tld_t *t = tld_list; ; t++) {
        i++;
        if (t->domain == NULL) {
            fprintf (f, "{\"e\":\"row\",\"src\":\"compiled\",\"i\":%d,\"term\":1,\"d\":[],\"len\":%zu,\"type\":%d}\n", i, t->length, t->type);
            break;
        }
        fprintf (f, "{\"e\":\"row\",\"src\":\"compiled\",\"i\":%d,\"term\":0,\"d\":", i);
        put_ubytes (f, (const unsigned char *) t->domain, (int) strlen (t->domain));
        fprintf (f, ",\"len\":%zu,\"type\":%d}\n", t->length, t->type);
        if (i > 100000) die ("table has no terminator");
    }
    fprintf (f, "{\"e\":\"count\",\"src\":\"compiled\",\"n\":%d}\n", i - 1);
    /* every label, and variations that are (mostly) not labels, looked up through is_tld */
    for (const tld_t *t = tld_list; t->domain; t++) {
        size_t n = strlen (t->domain);
        char buf[300];
        for (int var = 0; var < 7; var++) {
            size_t m = n;
            memcpy (buf, t->domain, n + 1);
            if (var == 5) {         /* bit 0x20 flipped in every character that is not a letter: '-' becomes CR, digits become controls */
                int any = 0;
                for (size_t k = 0; k < n; k++) if (!((buf[k] | 0x20) >= 'a' && (buf[k] | 0x20) <= 'z')) { buf[k] ^= 0x20; any = 1; }
                if (!any) continue;
            }
            if (var == 6) {         /* bit 0x20 flipped in every letter (case) and bit 0x80 set in the last byte */
                for (size_t k = 0; k < n; k++) if ((buf[k] | 0x20) >= 'a' && (buf[k] | 0x20) <= 'z') buf[k] ^= 0x20;
                buf[n - 1] = (char) (buf[n - 1] | 0x80);
            }
            if (var == 1) { buf[n] = 'q'; buf[n + 1] = 0; m = n + 1; }            /* one character longer */
            else if (var == 2 && n > 1) { buf[n - 1] = 0; m = n - 1; }              /* proper prefix */
            else if (var == 3) { for (size_t k = 0; k < n; k++) if (buf[k] >= 'a' && buf[k] <= 'z') buf[k] -= 32; }
            else if (var == 4) { buf[0] = buf[0] == 'q' ? 'z' : 'q'; }
            {
                const char *p = place_bytes ((unsigned char *) buf, (int) m, var & 1);
                int rc = is_tld (p, p + m);
                unplace ();
                fprintf (f, "{\"e\":\"lookup\",\"in\":");
                put_ubytes (f, (unsigned char *) buf, (int) m);
                fprintf (f, ",\"rc\":%d}\n", rc);
                cnt.calls++; cnt.checked++; cnt.pinned++;
            }
        }
    }
    /* the same labels once more from the last row to the first, and each row followed by its table predecessor: a look-up must
     * not depend on what was looked up before */
    {
        int nrows = 0;
        for (const tld_t *t = tld_list; t->domain; t++) nrows++;
        for (int k = nrows - 1; k >= 0; k--) for (int j = 0; j < 2; j++) {
            const tld_t *t = &tld_list[(j == 1 && k > 0) ? k - 1 : k];
            size_t n = strlen (t->domain);
            const char *p = place_bytes ((const unsigned char *) t->domain, (int) n, k & 1);
            int rc = is_tld (p, p + n);
            unplace ();
            fprintf (f, "{\"e\":\"lookup\",\"in\":");
            put_ubytes (f, (const unsigned char *) t->domain, (int) n);
            fprintf (f, ",\"rc\":%d}\n", rc);
            cnt.calls++; cnt.checked++; cnt.pinned++;
        }
        /* an unlisted label sharing a long prefix with the row, then the row itself */
        for (int k = 0; k < nrows; k++) {
            const tld_t *t = &tld_list[k];
            size_t n = strlen (t->domain), cut = n > 16 ? 15 : n - 1;
            char miss[80];
            if (n < 2 || n > 70) continue;
            memcpy (miss, t->domain, cut); miss[cut] = 'q'; miss[cut + 1] = 'q'; miss[cut + 2] = 0;
            for (int j = 0; j < 2; j++) {
                const char *lab = j ? t->domain : miss;
                size_t ln = strlen (lab);
                const char *p = place_bytes ((const unsigned char *) lab, (int) ln, k & 1);
                int rc = is_tld (p, p + ln);
                unplace ();
                fprintf (f, "{\"e\":\"lookup\",\"in\":");
                put_ubytes (f, (const unsigned char *) lab, (int) ln);
                fprintf (f, ",\"rc\":%d}\n", rc);
                cnt.calls++; cnt.checked++; cnt.pinned++;
            }
        }
    }
    fclose (f);
}

/* ------------------------------------------------------------------ */
/* kind 16: library oracle for the CLI check: [16, id, n, bytes..] -> oracle.ndjson {"id","ret","msg"} (default settings) */
static FILE *f_oracle;
static void
do_oracle (long *v, int nv)
{
    eav_t ev;
    int n = (int) v[2], ret;
    const char *p, *msg;
    char path[600];
    if (nv != 3 + n) die ("bad oracle vector");
    if (!f_oracle) {
        snprintf (path, sizeof path, "%s/oracle.ndjson", outdir);
        if (!(f_oracle = fopen (path, "w"))) die ("open oracle");
    }
    eav_init (&ev);
    if (eav_setup (&ev) != 0) die ("setup");
    p = place (v + 3, n, 0, -1);
    ret = eav_is_email (&ev, p, n);
    unplace ();
    msg = eav_errstr (&ev);
    fprintf (f_oracle, "{\"id\":%ld,\"ret\":%d,\"msg\":[", v[1], ret);
    for (int i = 0; msg && msg[i]; i++) fprintf (f_oracle, i ? ",%d" : "%d", (unsigned char) msg[i]);
    fprintf (f_oracle, "]}\n");
    fflush (f_oracle);
    eav_free (&ev);
    cnt.calls++;
}

/* ------------------------------------------------------------------ */
/* kind 17: internationalised domain [17, mustReject, n, U-domain bytes..] - C10.
 * The A-label spelling comes from the converter (environment); the relation between the library's
 * treatment of the two spellings is what is checked. */
static void
run_dom (int m, int tld, const unsigned char *dom, int n, int *rc, int *fl, int *idn)
{
    static long buf[70000];
    const char *p;
    eav_result_t *r;
    buf[0] = 'a'; buf[1] = '@';
    for (int i = 0; i < n; i++) buf[2 + i] = dom[i];
    p = place (buf, n + 2, tld, -1);
    r = emails[m].f (p, n + 2, tld);
    *rc = r->rc; *idn = IDNRC (r->idn_rc);
    *fl = (r->is_ipv4 ? 1 : 0) | (r->is_ipv6 ? 2 : 0) | (r->is_domain ? 4 : 0);
    eav_result_free (r);
    unplace ();
    cnt.calls++;
}

static void
do_idn (long *v, int nv)
{
    int must_reject = (int) v[1], n = (int) v[2];
    unsigned char *u = malloc (n + 1);
    char *a = NULL;
    int code;
    if (nv != 3 + n) die ("bad idn vector");
    for (int i = 0; i < n; i++) u[i] = (unsigned char) v[3 + i];
    u[n] = 0;
    code = idn2_to_ascii_8z ((char *) u, &a, IDN2_NONTRANSITIONAL);
    for (int tld = 0; tld < 2; tld++) {
        int rcU, flU, idnU;
        run_dom (3, tld, u, n, &rcU, &flU, &idnU);
        cnt.checked++; cnt.pinned++;
        if (must_reject && rcU >= 0)
            viol ("idn", "domain violating UTF-8 / IDNA2008 accepted", 6531, tld, v + 3, n, 0, rcU, code);
        if (code != IDN2_OK) {
            if (rcU != -EEAV_IDN_ERROR || flU != 0 || idnU != code)
                viol ("idn", "converter refused the domain but the address is not rejected as an IDN error", 6531, tld, v + 3, n, -EEAV_IDN_ERROR, rcU, code);
        } else {
            int na = (int) strlen (a), rcA, flA, idnA;
            run_dom (3, tld, (unsigned char *) a, na, &rcA, &flA, &idnA);
            cnt.checked++; cnt.pinned++;
            if (rcA != rcU || flA != flU)
                viol ("idn", "U-label and A-label spellings treated differently in mode 6531", 6531, tld, v + 3, n, rcU, rcA, flA);
            for (int m = 0; m < 3; m++) {
                int rcM, flM, idnM;
                run_dom (m, tld, (unsigned char *) a, na, &rcM, &flM, &idnM);
                cnt.checked++; cnt.pinned++;
                if (rcM != rcA || (flM != flA && rcA >= 0))
                    viol ("idn", "ASCII mode treats the A-label spelling differently from mode 6531", emails[m].mode, tld, v + 3, n, rcA, rcM, flM);
            }
        }
    }
    /* trace event for TLC: the converter's answer and the library's outcome (validated by Trace_Func.EmailOk) */
    {
        static long buf[70000];
        int rc, fl, idn;
        run_dom (3, 1, u, n, &rc, &fl, &idn);
        buf[0] = 'a'; buf[1] = '@';
        for (int i = 0; i < n; i++) buf[2 + i] = u[i];
        cnt.drift++;
        email_event (f_drift, 0, 6531, 1, buf, n + 2, rc, fl, idn, 0, 0);
    }
    if (a) idn2_free (a);
    free (u);
}

/* ------------------------------------------------------------------ */
/* kinds 18 / 19: direction B - record what the code does on inputs that do not come from TLC (the
 * repository's data files, mutations of them, seeded random and long strings).  [18, optbits, n, bytes..]
 * an address: is_*_email in four modes x tld_check, the local-part scanners on L, is_ascii_domain on D;
 * [19, optbits, n, bytes..] a local part.  Everything goes to trace.ndjson for Trace_Func. */
static FILE *f_trace;
static void
trace_open (void)
{
    char path[600];
    if (f_trace) return;
    snprintf (path, sizeof path, "%s/trace.ndjson", outdir);
    if (!(f_trace = fopen (path, "w"))) die ("open trace");
}

static void
local_events (int ob, const long *b, int n)
{
    for (int m = 0; m < 4; m++) {
        const char *p = place (b, n, m & 1, -1);
        int rc = locals[m].f (p, p + n);
        unplace ();
        fprintf (f_trace, "{\"e\":\"local\",\"o\":%d,\"mode\":%d,\"in\":", ob, locals[m].mode);
        put_bytes (f_trace, b, n);
        fprintf (f_trace, ",\"rc\":%d}\n", rc);
        cnt.calls++; cnt.checked++;
    }
}

static void
do_record (long *v, int nv, int local_only)
{
    int ob = (int) v[1], n = (int) v[2], at = -1;
    const long *b = v + 3;
    if (nv != 3 + n) die ("bad record vector");
    trace_open ();
    alarm (120);
    if (local_only) { local_events (ob, b, n); alarm (0); return; }
    for (int tld = 0; tld < 2; tld++) for (int m = 0; m < 4; m++) {
        const char *p = place (b, n, (m + tld) & 1, -1);
        eav_result_t *r = emails[m].f (p, n, tld);
        int fl = (r->is_ipv4 ? 1 : 0) | (r->is_ipv6 ? 2 : 0) | (r->is_domain ? 4 : 0);
        unplace ();
        email_event (f_trace, ob, emails[m].mode, tld, b, n, r->rc, fl, IDNRC (r->idn_rc), 0, 0);
        eav_result_free (r);
        cnt.calls++; cnt.checked++;
    }
    for (int i = 0; i < n; i++) if (b[i] == '@') at = i;
    if (at >= 0) {
        local_events (ob, b, at);
        if (at + 1 < n && b[at + 1] != '[') {
            const char *p = place (b + at + 1, n - at - 1, 0, -1);
            int rc = is_ascii_domain (p, p + (n - at - 1));
            unplace ();
            fprintf (f_trace, "{\"e\":\"host\",\"o\":%d,\"mode\":0,\"in\":", ob);
            put_bytes (f_trace, b + at + 1, n - at - 1);
            fprintf (f_trace, ",\"rc\":%d}\n", rc);
            cnt.calls++; cnt.checked++;
        }
    }
    alarm (0);
}

/* ------------------------------------------------------------------ */
/* kind 22: [22, seed, nhist, nsteps] - direction B for the object: the driver itself draws random legal call
 * histories over the pool (kind 8 lines), runs them on one real eav_t and records every call at its return
 * in histtrace.ndjson; Trace_Eav replays the events through the object model of spec/Eav.tla. */
static unsigned long long rng_s;
static unsigned rnd (unsigned n) { rng_s = rng_s * 6364136223846793005ULL + 1442695040888963407ULL; return (unsigned) ((rng_s >> 33) % n); }

static void
put_cstr_bytes (FILE *f, const char *s)
{
    fputc ('[', f);
    for (int i = 0; s && s[i]; i++) fprintf (f, i ? ",%d" : "%d", (unsigned char) s[i]);
    fputc (']', f);
}

static void
hist_reset (FILE *f)
{   /* reference messages of this build: "no error" and "refused setup" on fresh objects (wording is free) */
    eav_t f1, f2;
    eav_init (&f1); eav_init (&f2); f2.rfc = (EAV_RFC) 7; (void) eav_setup (&f2);
    fprintf (f, "{\"e\":\"reset\",\"noerr\":"); put_cstr_bytes (f, eav_errstr (&f1));
    fprintf (f, ",\"badrfc\":"); put_cstr_bytes (f, eav_errstr (&f2));
    fprintf (f, "}\n");
    eav_free (&f1); eav_free (&f2);
}

static FILE *
hist_file (void)
{
    static FILE *f;
    char path[600];
    if (f) return f;
    snprintf (path, sizeof path, "%s/histtrace.ndjson", outdir);
    if (!(f = fopen (path, "w"))) die ("open histtrace");
    return f;
}

/* one eav_is_email on the object, recorded at its return together with the same call on a fresh object */
static void
hist_is_email (FILE *f, eav_t *ev, int confirmed, int idx, int k)
{
    int ret, fret;
    const unsigned char *a = pool_b[idx];
    int n = pool_n[idx], at = -1;
    eav_t fr;
    long *lb = malloc ((n + 1) * sizeof (long));
    const char *p = place_bytes (a, n, k & 1), *msg;
    for (int i = 0; i < n; i++) lb[i] = a[i];
    /* the empty address is also what (NULL, 0) denotes */
    ret = eav_is_email (ev, (n == 0 && (k & 2)) ? NULL : p, n);
    msg = eav_errstr (ev);
    fprintf (f, "{\"e\":\"is_email\",\"in\":");
    put_ubytes (f, a, n);
    fprintf (f, ",\"ret\":%d,\"err\":%d,\"rc\":%d,\"fl\":%d,\"idn\":%d,\"msg\":", ret, ev->errcode, ev->result->rc,
             res_flags (ev->result), IDNRC (ev->result->idn_rc));
    put_cstr_bytes (f, msg);
    fprintf (f, ",\"msgidn\":%d", (msg && ev->result->idn_rc != 0 && strcmp (msg, IDN_MSG (ev->result->idn_rc)) == 0) ? 1 : 0);
    /* the same call on a fresh object with the same public settings and the confirmed mode */
    eav_init (&fr);
    fr.rfc = (EAV_RFC) (confirmed - 1); fr.tld_check = ev->tld_check; fr.allow_tld = ev->allow_tld;
    if (eav_setup (&fr) != 0) die ("fresh setup");
    fret = eav_is_email (&fr, p, n);
    fprintf (f, ",\"fresh\":[%d,%d,%d,%d]", fret, fr.errcode, fr.result->rc, res_flags (fr.result));
    eav_free (&fr);
    unplace ();
    for (int i = 0; i < n; i++) if (a[i] == '@') at = i;
    if (at >= 0 && at + 1 < n && a[at + 1] != '[') {
        char *out = NULL;
        int code = idn2_to_ascii_8z ((const char *) a + at + 1, &out, IDN2_NONTRANSITIONAL);
        fprintf (f, ",\"cc\":%d,\"co\":", code);
        if (code == IDN2_OK && out) put_ubytes (f, (unsigned char *) out, (int) strlen (out)); else fputs ("[]", f);
        if (out) free (out);
    }
    fputs ("}\n", f);
    free (lb);
    cnt.checked++;
}

static void
do_random_histories (long *v, int nv)
{
    char path[600];
    FILE *f;
    int nhist = (int) v[2], nsteps = (int) v[3], npool = 0;
    if (nv != 4) die ("bad random-history vector");
    for (int i = 1; i < POOL_MAX; i++) if (pool_b[i]) npool = i;
    if (!npool) die ("empty pool");
    rng_s = (unsigned long long) v[1] * 2654435761ULL + 12345;
    f = hist_file ();
    for (int h = 0; h < nhist; h++) {
        eav_t *ev = malloc (sizeof *ev);
        int live = 0, confirmed = 0;
        hist_reset (f);
#ifdef VERIF_WRAP
        wrap_reset (); wrap_track = 1;
#endif
        for (int k = 0; k < nsteps; k++) {
            unsigned r = rnd (100);
            cnt.calls++;
            if (!live) { eav_init (ev); live = 1; confirmed = 0; fprintf (f, "{\"e\":\"init\"}\n"); continue; }
            if (r < 50 && confirmed) {
                hist_is_email (f, ev, confirmed, 1 + (int) rnd (npool), k);
            } else if (r < 62) {
                static const int vals[] = { 0, 1, 2, 3, 0, 1, 2, 3, 3, 4, 7, -1 };
                int val = vals[rnd (12)];
                ev->rfc = (EAV_RFC) val;
                fprintf (f, "{\"e\":\"set_rfc\",\"v\":%d}\n", val);
            } else if (r < 76) {
                int ret = eav_setup (ev);
                if (ret == 0) confirmed = (int) ev->rfc + 1;
                fprintf (f, "{\"e\":\"setup\",\"ret\":%d}\n", ret);
                cnt.checked++;
            } else if (r < 81) {
                ev->tld_check = rnd (2);
                fprintf (f, "{\"e\":\"set_tld\",\"v\":%d}\n", ev->tld_check ? 1 : 0);
            } else if (r < 87) {
                static const int masks[] = { 0x2f8, 0x7fc, 0, 0x8, 0x10, 0x200, 0x2f8 ^ 0x20, 0x404 };
                ev->allow_tld = masks[rnd (8)];
                fprintf (f, "{\"e\":\"set_allow\",\"v\":%d}\n", ev->allow_tld);
            } else if (r < 95) {
                const char *msg = eav_errstr (ev);
                fprintf (f, "{\"e\":\"errstr\",\"err\":%d,\"msg\":", ev->errcode);
                put_cstr_bytes (f, msg);
                fprintf (f, ",\"null\":%d}\n", msg == NULL);
                cnt.checked++;
            } else {
                eav_free (ev);
                live = 0;
#ifdef VERIF_WRAP
                fprintf (f, "{\"e\":\"free\",\"live\":%ld,\"badfree\":%ld}\n", wrap_live_allocs (), wrap_bad_free);
#else
                fprintf (f, "{\"e\":\"free\",\"live\":0,\"badfree\":0}\n");
#endif
            }
        }
        if (live) {
            eav_free (ev);
#ifdef VERIF_WRAP
            fprintf (f, "{\"e\":\"free\",\"live\":%ld,\"badfree\":%ld}\n", wrap_live_allocs (), wrap_bad_free);
#else
            fprintf (f, "{\"e\":\"free\",\"live\":0,\"badfree\":0}\n");
#endif
        }
#ifdef VERIF_WRAP
        wrap_track = 0;
#endif
        free (ev);
    }
    fflush (f);
}

/* kind 23: [23, rfc, tld_check, n, idx..] - one scripted history on one object: eav_init, the settings, eav_setup, then
 * eav_is_email on the pool addresses idx.. in this order, eav_free.  Used for sequences in which every ordered pair of
 * addresses occurs side by side (an outcome that depends on the address validated before shows as two outcomes of one call). */
static void
do_scripted_history (long *v, int nv)
{
    FILE *f = hist_file ();
    eav_t *ev = malloc (sizeof *ev);
    int n;
    if (nv < 4 || nv != 4 + v[3]) die ("bad scripted-history vector");
    n = (int) v[3];
    hist_reset (f);
#ifdef VERIF_WRAP
    wrap_reset (); wrap_track = 1;
#endif
    eav_init (ev); fprintf (f, "{\"e\":\"init\"}\n");
    ev->rfc = (EAV_RFC) v[1]; fprintf (f, "{\"e\":\"set_rfc\",\"v\":%d}\n", (int) v[1]);
    ev->tld_check = v[2] != 0; fprintf (f, "{\"e\":\"set_tld\",\"v\":%d}\n", v[2] ? 1 : 0);
    if (eav_setup (ev) != 0) die ("scripted history: setup refused");
    fprintf (f, "{\"e\":\"setup\",\"ret\":0}\n");
    for (int k = 0; k < n; k++) {
        int idx = (int) v[4 + k];
        if (idx < 1 || idx >= POOL_MAX || !pool_b[idx]) die ("scripted history: pool index");
        cnt.calls++;
        hist_is_email (f, ev, (int) v[1] + 1, idx, k);
    }
    eav_free (ev);
#ifdef VERIF_WRAP
    fprintf (f, "{\"e\":\"free\",\"live\":%ld,\"badfree\":%ld}\n", wrap_live_allocs (), wrap_bad_free);
    wrap_track = 0;
#else
    fprintf (f, "{\"e\":\"free\",\"live\":0,\"badfree\":0}\n");
#endif
    free (ev);
    fflush (f);
}

/* ------------------------------------------------------------------ */
int
main (int argc, char **argv)
{
    char *line = NULL; size_t cap = 0; ssize_t r;
    long *v = NULL; int vcap = 0;

    if (argc < 2) die ("usage: replay OUTDIR [stride]");
    if (argc > 2) stride = atol (argv[2]);
    common_init (argv[1], stride);
#if defined(HAVE_IDNKIT)
    if (idn_resconf_create (&g_ctx) != idn_success) die ("adapter");
    adapter_ctx_live = 0;            /* the driver's own context is not the library's */
#endif

    while ((r = getline (&line, &cap, stdin)) > 0) {
        if (r < 3 || line[0] != '"' || line[1] != '[') continue;
        int nv = parse_ints (line + 2, &v, &vcap);
        if (nv < 1) continue;
        set_current (line);
        cnt.vectors++;
        switch (v[0]) {
        case 1: do_local (v, nv); break;
        case 2: do_host (v, nv); break;
        case 3: do_ip (v, nv); break;
        case 5: do_email (v, nv); break;
        case 7: do_history (v, nv); break;
        case 8: do_pool (v, nv); break;
        case 9: do_policy (v, nv); break;
        case 13: do_robust (v, nv, 1); break;
        case 15: do_table (); break;
        case 16: do_oracle (v, nv); break;
        case 17: do_idn (v, nv); break;
        case 18: do_record (v, nv, 0); break;
        case 22: do_random_histories (v, nv); break;
        case 23: do_scripted_history (v, nv); break;
        case 19: do_record (v, nv, 1); break;
        case 14: do_robust (v, nv, 0); break;
        case 10: do_defaults (v, nv); break;
        case 11: do_policy_addr (v, nv); break;
        default: die ("unknown vector kind");
        }
    }
    common_finish ();
    if (f_trace) fclose (f_trace);
    if (f_oracle) fclose (f_oracle);
    free (line);
    free (v);
    for (int i = 0; i < POOL_MAX; i++) free (pool_b[i]);
    return 0;
}
