/*
 * replay.c - direction A of the binding: executes vectors printed by TLC
 * against the real libeav built from /repo's working tree.
 *
 * input  (stdin): TLC output; vector lines look like  "[K,a,b,...]"
 * output (files in argv[1] directory):
 *    viol.ndjson   observed outcome outside what layer P allows
 *    drift.ndjson  observed outcome differs from layer M's prediction (trace for TLC, direction B)
 *    summary.json  counters
 *    current.txt   the vector being executed (for crash attribution)
 *
 * Every input string is executed twice: right-aligned (its terminator is
 * the last byte before a PROT_NONE page) and left-aligned (its first byte
 * is the first byte after one), so a read before the string or past the
 * terminator faults at once; every STRIDE-th vector the input pages are
 * also made read-only during the call.
 */
#define _GNU_SOURCE
#include <stdio.h>
#include <stdlib.h>
#include <string.h>
#include <signal.h>
#include <unistd.h>
#include <fcntl.h>
#include <sys/mman.h>
#include <eav.h>
#include <eav/auto_tld.h>
#include "common.h"

static long stride = 8;

/* ------------------------------------------------------------------ */
/* kind 1: local part.  [1, optbits, n, bytes.., c12, (exp, mrc) x 4 modes]
 * c12 = 1: the spec says the cross-mode relation of C12 applies (all four codes equal) */
typedef int (*local_f)(const char *, const char *);
static const struct { int mode; local_f f; } locals[4] = {
    { 822, is_822_local }, { 5321, is_5321_local },
    { 5322, is_5322_local }, { 6531, is_6531_local } };

static void
do_local (long *v, int nv)
{
    int ob = (int) v[1], n = (int) v[2];
    const long *b = v + 3, *x = v + 3 + n + 1;
    int c12 = (int) v[3 + n];
    int got[4];
    if (nv != 3 + n + 9) die ("bad local vector");
    for (int m = 0; m < 4; m++) {
        int exp = (int) x[2*m], mrc = (int) x[2*m+1];
        int rc[2];
        for (int side = 0; side < 2; side++) {
            const char *p = place (b, n, side, -1);
            rc[side] = locals[m].f (p, p + n);
            unplace ();
        }
        cnt.calls += 2;
        if (rc[0] != rc[1])
            viol ("local", "placement-dependent result", locals[m].mode, ob, b, n, exp, rc[0], rc[1]);
        else if ((exp == 1 && rc[0] != 0) || (exp == 0 && rc[0] >= 0) || rc[0] > 0)
            viol ("local", "decision", locals[m].mode, ob, b, n, exp, rc[0], mrc);
        else if (rc[0] != mrc)
            drift_local (locals[m].mode, ob, b, n, rc[0], mrc);
        if (exp != 2) cnt.pinned++;
        cnt.checked++;
        got[m] = rc[0];
    }
    if (c12 && !(got[0] == got[1] && got[1] == got[2] && got[2] == got[3]))
        viol ("local", "cross-mode", 0, ob, b, n, got[0], got[1], got[3]);
    if (got[1] == 0 && got[0] != 0)
        viol ("local", "cross-inclusion", 0, ob, b, n, got[0], got[1], 0);
}

/* ------------------------------------------------------------------ */
/* kind 2: host name.  [2, optbits, n, bytes.., exp, mrc] */
static void
do_host (long *v, int nv)
{
    int ob = (int) v[1], n = (int) v[2];
    const long *b = v + 3;
    int exp = (int) v[3 + n], mrc = (int) v[4 + n];
    int rc[2], ascii = 1;
    if (nv != 3 + n + 2) die ("bad host vector");
    for (int side = 0; side < 2; side++) {
        const char *p = place (b, n, side, -1);
        rc[side] = is_ascii_domain (p, p + n);
        unplace ();
    }
    cnt.calls += 2; cnt.checked++; cnt.pinned++;
    if (rc[0] != rc[1])
        viol ("host", "placement-dependent result", 0, ob, b, n, exp, rc[0], rc[1]);
    else if ((exp == 1) != (rc[0] == 0) || rc[0] > 0)
        viol ("host", "decision", 0, ob, b, n, exp, rc[0], mrc);
    else if (rc[0] != mrc)
        drift_ev ("host", 0, ob, b, n, rc[0], mrc);
    /* mode 6531 applies the same rules to the A-label form: for an all-ASCII
     * string nothing that violates them may be accepted */
    for (int i = 0; i < n; i++) if (b[i] >= 128) ascii = 0;
    if (ascii && n > 0) {
        int idn = 0, r;
        const char *p = place (b, n, 0, -1);
        r = is_utf8_domain (&idn, p, p + n, false);
        unplace ();
        cnt.calls++; cnt.checked++; cnt.pinned += (exp == 0);
        if (r == 0 && exp == 0)
            viol ("host", "utf8-domain accepts an invalid host name", 6531, ob, b, n, exp, r, idn);
        else if (r > 0 || (r < 0 && r != rc[0] && r != -EEAV_IDN_ERROR))
            viol ("host", "utf8-domain code", 6531, ob, b, n, exp, r, rc[0]);
    }
}

/* ------------------------------------------------------------------ */
/* kind 3: address literal.
 * [3, n, domain.., exp, family, mrc, mv4, mv6, ni, inner.., v4exp, v6exp, m_ipv4, m_ipv6, m_ipaddr] */
typedef eav_result_t *(*email_f)(const char *, size_t, bool);
static const struct { int mode; email_f f; } emails[4] = {
    { 822, is_822_email }, { 5321, is_5321_email },
    { 5322, is_5322_email }, { 6531, is_6531_email } };

static void
sandwich (const char *what, const long *b, int n, int exp, int got, int model)
{
    cnt.checked++; if (exp != 2) cnt.pinned++;
    /* the properties speak about address literals inside a domain part, not about the bare
     * is_ipv4 / is_ipv6 / is_ipaddr entry points: a disagreement here is model drift only */
    if ((exp == 1 && got != 1) || (exp == 0 && got != 0) || got != model)
        drift_ev (what, 0, 0, b, n, got, model);
}

static void
do_ip (long *v, int nv)
{
    int n = (int) v[1];
    const long *d = v + 2, *x = v + 2 + n;
    int exp = (int) x[0], fam = (int) x[1], mrc = (int) x[2];
    int ni = (int) x[5];
    const long *in = x + 6, *y = x + 6 + ni;
    static long buf[1 << 16];
    int first_rc = 0, first_fl = 0;

    if (nv != 2 + n + 6 + ni + 5) die ("bad ip vector");
    buf[0] = 'x'; buf[1] = '@';
    for (int i = 0; i < n; i++) buf[2 + i] = d[i];
    for (int m = 0; m < 4; m++) for (int tld = 0; tld < 2; tld++) {
        const char *p = place (buf, n + 2, (m + tld) & 1, -1);
        eav_result_t *r = emails[m].f (p, n + 2, tld);
        int rc = r->rc, fl = (r->is_ipv4 ? 1 : 0) | (r->is_ipv6 ? 2 : 0) | (r->is_domain ? 4 : 0);
        unplace ();
        eav_result_free (r);
        cnt.calls++; cnt.checked++; if (exp != 2) cnt.pinned++;
        if ((exp == 1 && rc != 0) || (exp == 0 && rc >= 0) || rc > 0)
            viol ("literal", "decision", emails[m].mode, tld, d, n, exp, rc, mrc);
        else if (rc == 0 && fl != (fam == 4 ? 1 : 2))
            viol ("literal", "family flag", emails[m].mode, tld, d, n, fam, fl, mrc);
        else if (rc < 0 && fl != 0)
            viol ("literal", "flag set on rejection", emails[m].mode, tld, d, n, 0, fl, rc);
        else if (rc != mrc && m == 0 && tld == 0)
            drift_ev ("literal", emails[m].mode, 0, d, n, rc, mrc);
        if (m == 0 && tld == 0) { first_rc = rc; first_fl = fl; }
        else if (rc != first_rc || fl != first_fl)
            viol ("literal", tld ? "mode/tld_check dependent" : "mode dependent", emails[m].mode, tld, d, n, first_rc, rc, fl);
    }
    /* the bare public validators on the NUL-terminated inner string */
    {
        int colon = 0;
        const char *p;
        for (int i = 0; i < ni; i++) if (in[i] == ':') colon = 1;
        p = place (in, ni, 0, -1);
        sandwich ("ipv4", in, ni, (int) y[0], is_ipv4 (p, p + ni), (int) y[2]);
        sandwich ("ipv6", in, ni, (int) y[1], is_ipv6 (p, p + ni), (int) y[3]);
        sandwich ("ipaddr", in, ni, colon ? (int) y[1] : (int) y[0], is_ipaddr (p, p + ni), (int) y[4]);
        unplace ();
        p = place (in, ni, 1, -1);
        if (is_ipv4 (p, p + ni) != is_ipv4 (p, p + ni)) die ("nondeterministic");
        unplace ();
        cnt.calls += 4;
    }
}

/* ------------------------------------------------------------------ */
int
main (int argc, char **argv)
{
    char *line = NULL; size_t cap = 0; ssize_t r;
    long *v = NULL; int vcap = 0;

    if (argc < 2) die ("usage: replay OUTDIR [stride]");
    if (argc > 2) stride = atol (argv[2]);
    common_init (argv[1], stride);

    while ((r = getline (&line, &cap, stdin)) > 0) {
        if (r < 3 || line[0] != '"' || line[1] != '[') continue;
        int nv = parse_ints (line + 2, &v, &vcap);
        if (nv < 1) continue;
        set_current (line);
        cnt.vectors++;
        switch (v[0]) {
        case 1: do_local (v, nv); break;
        case 2: do_host (v, nv); break;
        case 3: do_ip (v, nv); break;
        default: die ("unknown vector kind");
        }
    }
    common_finish ();
    return 0;
}
