/*
 * replay.c - direction A of the binding: executes vectors printed by TLC
 * against the real libeav built from /repo's working tree.
 *
 * input  (stdin): TLC output; vector lines look like  "[K,a,b,...]"
 * output (files in argv[1] directory):
 *    viol.ndjson   observed outcome outside what layer P allows
 *    drift.ndjson  observed outcome differs from layer M's prediction (trace for TLC, direction B)
 *    summary.json  counters
 *    current.txt   the vector being executed (for crash attribution)
 *
 * Every input string is executed twice: right-aligned (its terminator is
 * the last byte before a PROT_NONE page) and left-aligned (its first byte
 * is the first byte after one), so a read before the string or past the
 * terminator faults at once; every STRIDE-th vector the input pages are
 * also made read-only during the call.
 */
#define _GNU_SOURCE
#include <stdio.h>
#include <stdlib.h>
#include <string.h>
#include <signal.h>
#include <unistd.h>
#include <fcntl.h>
#include <sys/mman.h>
#include <eav.h>
#include <eav/auto_tld.h>
#include "common.h"

static long stride = 8;

/* ------------------------------------------------------------------ */
/* kind 1: local part.  [1, optbits, n, bytes.., c12, (exp, mrc) x 4 modes]
 * c12 = 1: the spec says the cross-mode relation of C12 applies (all four codes equal) */
typedef int (*local_f)(const char *, const char *);
static const struct { int mode; local_f f; } locals[4] = {
    { 822, is_822_local }, { 5321, is_5321_local },
    { 5322, is_5322_local }, { 6531, is_6531_local } };

static void
do_local (long *v, int nv)
{
    int ob = (int) v[1], n = (int) v[2];
    const long *b = v + 3, *x = v + 3 + n + 1;
    int c12 = (int) v[3 + n];
    int got[4];
    if (nv != 3 + n + 9) die ("bad local vector");
    for (int m = 0; m < 4; m++) {
        int exp = (int) x[2*m], mrc = (int) x[2*m+1];
        int rc[2];
        for (int side = 0; side < 2; side++) {
            const char *p = place (b, n, side, -1);
            rc[side] = locals[m].f (p, p + n);
            unplace ();
        }
        cnt.calls += 2;
        if (rc[0] != rc[1])
            viol ("local", "placement-dependent result", locals[m].mode, ob, b, n, exp, rc[0], rc[1]);
        else if ((exp == 1 && rc[0] != 0) || (exp == 0 && rc[0] >= 0) || rc[0] > 0)
            viol ("local", "decision", locals[m].mode, ob, b, n, exp, rc[0], mrc);
        else if (rc[0] != mrc)
            drift_local (locals[m].mode, ob, b, n, rc[0], mrc);
        if (exp != 2) cnt.pinned++;
        cnt.checked++;
        got[m] = rc[0];
    }
    if (c12 && !(got[0] == got[1] && got[1] == got[2] && got[2] == got[3]))
        viol ("local", "cross-mode", 0, ob, b, n, got[0], got[1], got[3]);
    if (got[1] == 0 && got[0] != 0)
        viol ("local", "cross-inclusion", 0, ob, b, n, got[0], got[1], 0);
}

/* ------------------------------------------------------------------ */
int
main (int argc, char **argv)
{
    char *line = NULL; size_t cap = 0; ssize_t r;
    long *v = NULL; int vcap = 0;

    if (argc < 2) die ("usage: replay OUTDIR [stride]");
    if (argc > 2) stride = atol (argv[2]);
    common_init (argv[1], stride);

    while ((r = getline (&line, &cap, stdin)) > 0) {
        if (r < 3 || line[0] != '"' || line[1] != '[') continue;
        int nv = parse_ints (line + 2, &v, &vcap);
        if (nv < 1) continue;
        set_current (line);
        cnt.vectors++;
        switch (v[0]) {
        case 1: do_local (v, nv); break;
        default: die ("unknown vector kind");
        }
    }
    common_finish ();
    return 0;
}
