package Text::CSV;
# Minimal stand-in for Text::CSV (not installed in this sandbox): just enough of the interface for
# util/gentld.pl and util/gen_utf8_pass_test.pl to run unmodified: new, getline, error_diag.
# RFC 4180: quoted fields, "" as an escaped quote, embedded newlines inside quotes.
use strict;
use warnings;

sub new {
    my ($class, $opts) = @_;
    my $self = { %{ $opts || {} }, _err => "" };
    return bless $self, $class;
}

sub error_diag { my $self = shift; return ref $self ? $self->{_err} : ""; }

sub getline {
    my ($self, $io) = @_;
    my $line = <$io>;
    return undef unless defined $line;
    # a record continues while the number of quotes is odd
    while (($line =~ tr/"//) % 2 == 1) {
        my $more = <$io>;
        last unless defined $more;
        $line .= $more;
    }
    $line =~ s/\r?\n\z//;
    my @f;
    my $s = $line;
    while (1) {
        if ($s =~ s/\A"((?:[^"]|"")*)"(,|\z)//) {
            (my $v = $1) =~ s/""/"/g;
            push @f, $v;
            last if $2 eq "" ;
        } elsif ($s =~ s/\A([^,]*)(,|\z)//) {
            push @f, $1;
            last if $2 eq "";
        } else {
            $self->{_err} = "parse error";
            return undef;
        }
    }
    return \@f;
}

1;
