----------------------------- MODULE LocalPart -----------------------------
(***************************************************************************)
(* Local parts.                                                             *)
(*  Layer P  (IsLocalP, LocalExp, LTruth): the grammar as properties C02,   *)
(*           C03 and C17 state it:  local-part = word *("." word),          *)
(*           word = atom / quoted-string, per-mode character rules.         *)
(*  Layer M  (LocalRc): the four scanners src/is_{822,5321,5322,6531}_local.c*)
(*           as step machines with the variables of the C code              *)
(*           (quote, qpair, prev, decoder cursor), one step per loop         *)
(*           iteration, composed with FoldLeft.                             *)
(* o = [rfc20, f5322, us] are the three build options.                      *)
(***************************************************************************)
EXTENDS Bytes, Codes, Utf8

DefaultOpts == [rfc20 |-> FALSE, f5322 |-> FALSE, us |-> FALSE]

(* which RFC's quoted-string rules apply in mode m under options o *)
QRules(o, m) == IF m = RFC6531 THEN (IF o.f5322 THEN RFC5322 ELSE RFC5321) ELSE m
NonAsciiOk(m) == m = RFC6531

----------------------------------------------------------------------------
(* Layer P                                                                   *)

AtomChar(o, m, b) ==
  \/ IsGraph(b) /\ b \notin Specials /\ ~(m = RFC6531 /\ o.rfc20 /\ b \in Rfc20Set)
  \/ NonAsciiOk(m) /\ b >= 128

RECURSIVE AtomEnd(_, _, _, _)
AtomEnd(o, m, s, i) ==
  IF i <= Len(s) /\ AtomChar(o, m, s[i]) THEN AtomEnd(o, m, s, i + 1) ELSE i

(* Quoted-string scanners.  i is the next content position; the value is the *)
(* position just after the closing quote, or 0 when s[..] is not a           *)
(* quoted-string.  s[i-1] always exists (the opening quote or content).      *)
RECURSIVE Q822(_, _), Q5321(_, _, _), Q5322(_, _, _, _, _)

\* 822: any ASCII except unescaped DQUOTE / backslash and a CR that is not
\* CR LF followed by SP/HT; backslash escapes any ASCII
Q822(s, i) ==
  IF i > Len(s) THEN 0
  ELSE LET b == s[i] IN
    CASE b = DQ -> i + 1
      [] b = BS -> IF At(s, i+1) \in 1..127 THEN Q822(s, i + 2) ELSE 0
      [] b = CR -> IF At(s, i+1) = LF /\ At(s, i+2) \in {SP, HT} THEN Q822(s, i + 3) ELSE 0
      [] OTHER  -> IF b \in 1..127 THEN Q822(s, i + 1) ELSE 0

\* 5321 (and 6531): no control character anywhere; backslash escapes only
\* printable ASCII; in 6531 a non-ASCII character is one more qtext character
Q5321(m, s, i) ==
  IF i > Len(s) THEN 0
  ELSE LET b == s[i] IN
    CASE b = DQ -> i + 1
      [] b = BS -> IF At(s, i+1) \in 32..126 THEN Q5321(m, s, i + 2) ELSE 0
      [] OTHER  -> IF b \in 32..126 \/ (NonAsciiOk(m) /\ b >= 128) THEN Q5321(m, s, i + 1) ELSE 0

\* 5322: controls other than whitespace are qtext; an unescaped SP/HT/CR/LF
\* only next to a DQUOTE or another whitespace; backslash escapes any ASCII.
\* esc = the byte at i-1 was the second byte of a quoted-pair.  With
\* strict = TRUE an escaped left neighbour does not count as "a DQUOTE or
\* another whitespace" (the statement does not say which reading is meant:
\* the two readings bound the band in which any decision is accepted).
Q5322(m, s, i, esc, strict) ==
  IF i > Len(s) THEN 0
  ELSE LET b == s[i] IN
    CASE b = DQ -> i + 1
      [] b = BS -> IF At(s, i+1) \in 1..127 THEN Q5322(m, s, i + 2, TRUE, strict) ELSE 0
      [] b \in WS ->
           IF \/ (s[i-1] \in WS \cup {DQ} /\ ~(strict /\ esc))
              \/ At(s, i+1) \in WS \cup {DQ}
           THEN Q5322(m, s, i + 1, FALSE, strict) ELSE 0
      [] OTHER  -> IF b \in 1..127 \/ (NonAsciiOk(m) /\ b >= 128)
                   THEN Q5322(m, s, i + 1, FALSE, strict) ELSE 0

QEnd(o, m, s, i, strict) ==
  LET r == QRules(o, m) IN
  CASE r = RFC822  -> Q822(s, i)
    [] r = RFC5321 -> Q5321(m, s, i)
    [] r = RFC5322 -> Q5322(m, s, i, FALSE, strict)

(* end of the word starting at i (position after it), 0 if no word starts there *)
WordEnd(o, m, s, i, strict) ==
  IF i > Len(s) THEN 0
  ELSE IF s[i] = DQ THEN QEnd(o, m, s, i + 1, strict)
  ELSE LET e == AtomEnd(o, m, s, i) IN IF e > i THEN e ELSE 0

RECURSIVE LocalFrom(_, _, _, _, _)
LocalFrom(o, m, s, i, strict) ==
  LET e == WordEnd(o, m, s, i, strict) IN
  /\ e # 0
  /\ \/ e = Len(s) + 1
     \/ (s[e] = DOT /\ LocalFrom(o, m, s, e + 1, strict))

IsLocalP(o, m, s, strict) ==
  IF m = RFC6531 THEN WellFormed(s) /\ LocalFrom(o, m, Collapse(s), 1, strict)
                 ELSE LocalFrom(o, m, s, 1, strict)

(* What the properties pin for (o, m, s): 1 = must be accepted, 0 = must be   *)
(* rejected, 2 = not pinned.  Not pinned: the escaped-neighbour band of 5322  *)
(* whitespace.  Local parts with non-ASCII characters when 6531 follows 5322:  *)
(* C17 says the option leaves their decision unchanged.  That is pinned for    *)
(* local parts without quotes, backslashes, blanks and control characters      *)
(* (atoms and dots: the 5321- and 5322-based rule sets cannot differ there);   *)
(* with quoted content the option applies the 5322 rules to the ASCII          *)
(* characters of a mixed local part, which the property does not settle.       *)
PlainChars(s) == \A i \in 1..Len(s) : s[i] > 32 /\ s[i] # 127 /\ s[i] # DQ /\ s[i] # BS
LocalExp(o, m, s) ==
  IF m = RFC6531 /\ o.f5322 /\ ~IsAsciiSeq(s)
  THEN (IF ~WellFormed(s) THEN 0
        ELSE IF PlainChars(s) THEN (IF IsLocalP([o EXCEPT !.f5322 = FALSE], m, s, TRUE) THEN 1 ELSE 0)
        ELSE 2)
  ELSE IF QRules(o, m) # RFC5322 THEN (IF IsLocalP(o, m, s, TRUE) THEN 1 ELSE 0)
  ELSE IF IsLocalP(o, m, s, TRUE) THEN 1
  ELSE IF IsLocalP(o, m, s, FALSE) THEN 2 ELSE 0

(* C15: a reported local-part reason must actually hold of the local part *)
HasSub2(s, a, b) == \E i \in 1..Len(s) - 1 : s[i] = a /\ s[i+1] = b
LTruth(o, m, code, s) ==
  CASE code = E_LPART_EMPTY            -> Len(s) = 0
    [] code = E_LPART_TOO_LONG         -> Len(s) > 64
    [] code = E_LPART_NOT_ASCII        -> (\E i \in 1..Len(s) : s[i] >= 128)
    [] code = E_LPART_SPECIAL          -> (\E i \in 1..Len(s) : s[i] \in Specials \cup {SP}
                                              \/ (m = RFC6531 /\ o.rfc20 /\ s[i] \in Rfc20Set))
    [] code = E_LPART_CTRL_CHAR        -> (\E i \in 1..Len(s) : IsCtl(s[i]))
    [] code = E_LPART_MISPLACED_QUOTE  -> Has(s, DQ)
    [] code = E_LPART_UNQUOTED         -> Has(s, DQ)
    [] code = E_LPART_TOO_MANY_DOTS    -> HasSub2(s, DOT, DOT)
    [] code = E_LPART_MISPLACED_DOT    -> Len(s) > 0 /\ (s[1] = DOT \/ s[Len(s)] = DOT \/ HasSub2(s, DOT, DOT))
    [] code = E_LPART_UNQUOTED_FWS     -> (\E i \in 1..Len(s) : s[i] \in WS)
    [] code = E_LPART_INVALID_FOLDING  -> Has(s, CR)
    [] code = E_LPART_INVALID_UTF8     -> ~WellFormed(s)
    [] OTHER -> FALSE
(* ... and, being a local-part error, the local part really is invalid *)
LTruthFull(o, m, code, s) ==
  /\ LTruth(o, m, code, s)
  /\ (code \in 6..15 => LocalExp(o, m, s) # 1)

----------------------------------------------------------------------------
(* Layer M: the scanners.  st = [quote, qpair, skip, rc]; rc = RUN while the  *)
(* loop is running, otherwise the (non-positive) value returned.              *)
RUN == 1
LFail(st, code) == [st EXCEPT !.rc = 0 - code]
LInit == [quote |-> FALSE, qpair |-> FALSE, skip |-> 0, rc |-> RUN]
SpecialNoDotDq == {40, 41, 60, 62, 64, 44, 59, 58, 92, 91, 93, SP}

(* one iteration of the for-loop of is_822_local / is_5321_local / is_5322_local *)
LStepAscii(m, s, st, i) ==
  IF st.rc # RUN THEN st
  ELSE IF st.skip > 0 THEN [st EXCEPT !.skip = @ - 1]
  ELSE LET ch == s[i]  n == Len(s) IN
    IF ch > 127 THEN LFail(st, E_LPART_NOT_ASCII)
    ELSE IF m = RFC5321 /\ IsCtl(ch) THEN LFail(st, E_LPART_CTRL_CHAR)
    ELSE IF ~st.quote THEN
      IF m # RFC5321 /\ ~st.qpair /\ IsCtl(ch) THEN LFail(st, E_LPART_CTRL_CHAR)
      ELSE CASE ch = DQ  -> IF i = 1 \/ s[i-1] = DOT THEN [st EXCEPT !.quote = TRUE]
                            ELSE LFail(st, E_LPART_MISPLACED_QUOTE)
             [] ch = DOT -> IF i = 1 \/ i = n THEN LFail(st, E_LPART_MISPLACED_DOT)
                            ELSE IF s[i+1] = DOT THEN LFail(st, E_LPART_TOO_MANY_DOTS)
                            ELSE st
             [] ch \in SpecialNoDotDq -> LFail(st, E_LPART_SPECIAL)
             [] OTHER -> st
    ELSE IF st.qpair THEN [st EXCEPT !.qpair = FALSE]
    ELSE CASE ch = DQ -> IF i < n /\ s[i+1] # DOT THEN LFail(st, E_LPART_MISPLACED_QUOTE)
                         ELSE [st EXCEPT !.quote = FALSE]
           [] ch = BS -> [st EXCEPT !.qpair = TRUE]
           [] m = RFC822 /\ ch = CR ->
                \* (cp + 2) <= end && cp[1] == LF && cp[2] in {HT, SP}  =>  cp += 2
                IF i + 2 <= n + 1 /\ At(s, i+1) = LF /\ At(s, i+2) \in {SP, HT}
                THEN [st EXCEPT !.skip = 2] ELSE LFail(st, E_LPART_INVALID_FOLDING)
           [] m = RFC5322 /\ ch \in WS ->
                IF s[i-1] \in WS \cup {DQ} THEN st
                ELSE IF i >= n THEN st
                ELSE IF s[i+1] \in WS \cup {DQ} THEN st
                ELSE LFail(st, E_LPART_UNQUOTED_FWS)
           [] OTHER -> st

LFinish(st) == IF st.rc # RUN THEN st.rc
               ELSE IF st.quote THEN 0 - E_LPART_UNQUOTED ELSE 0

LocalRcAscii(m, s) ==
  IF Len(s) = 0 THEN 0 - E_LPART_EMPTY
  ELSE LFinish(FoldLeft(LAMBDA st, i : LStepAscii(m, s, st, i), LInit, Idx(s)))

(* is_6531_local: driven by the decoder; st additionally carries the decoder  *)
(* cursor idx (the_index), prev (0-based offset of the previous character)    *)
(* and eat (the 5322-variant look-ahead consumed the next character).         *)
L6Init == [quote |-> FALSE, qpair |-> FALSE, rc |-> RUN, idx |-> 0, prev |-> 0]

L6Char(o, s, st, d) ==     \* d = DecodeNext result with d.cp >= 0; body of the while loop
  LET ch == d.cp  pos == d.at  n == Len(s)
      stp == [st EXCEPT !.idx = d.idx, !.prev = pos]       \* state at "prev = at_byte" (loop end)
  IN
  IF ch > 127 THEN
      IF st.qpair THEN LFail(stp, E_LPART_SPECIAL)          \* a backslash escapes printable ASCII only
      ELSE stp
  ELSE IF ~o.f5322 /\ IsCtl(ch) THEN LFail(stp, E_LPART_CTRL_CHAR)
  ELSE IF ~st.quote THEN
      IF o.f5322 /\ ~st.qpair /\ IsCtl(ch) THEN LFail(stp, E_LPART_CTRL_CHAR)
      ELSE CASE ch = DQ  -> IF pos = 0 \/ s[st.prev + 1] = DOT THEN [stp EXCEPT !.quote = TRUE]
                            ELSE LFail(stp, E_LPART_MISPLACED_QUOTE)
             [] ch = DOT -> IF pos >= 1 /\ s[st.prev + 1] = DOT THEN LFail(stp, E_LPART_TOO_MANY_DOTS)
                            ELSE IF pos = 0 \/ pos + 1 = n THEN LFail(stp, E_LPART_MISPLACED_DOT)
                            ELSE stp
             [] ch \in SpecialNoDotDq \/ (o.rfc20 /\ ch \in Rfc20Set) -> LFail(stp, E_LPART_SPECIAL)
             [] OTHER -> stp
  ELSE IF st.qpair THEN [stp EXCEPT !.qpair = FALSE]
  ELSE CASE ch = DQ -> IF pos + 1 < n /\ s[pos + 2] # DOT THEN LFail(stp, E_LPART_MISPLACED_QUOTE)
                       ELSE [stp EXCEPT !.quote = FALSE]
         [] ch = BS -> [stp EXCEPT !.qpair = TRUE]
         [] o.f5322 /\ ch \in WS ->
              IF s[st.prev + 1] \in WS \cup {DQ} THEN stp
              ELSE \* look ahead: consumes the next character
                LET d2 == DecodeNext(s, d.idx, d.at) IN
                IF d2.cp = U_END THEN stp
                ELSE IF d2.cp = U_ERR THEN LFail(stp, E_LPART_INVALID_UTF8)
                ELSE LET st2 == [stp EXCEPT !.idx = d2.idx, !.prev = d2.at] IN
                  IF d2.cp > 127 THEN st2
                  ELSE CASE d2.cp = DQ ->
                              IF d2.at + 1 < n /\ s[d2.at + 2] # DOT THEN LFail(st2, E_LPART_MISPLACED_QUOTE)
                              ELSE [st2 EXCEPT !.quote = FALSE]
                         [] d2.cp \in WS -> st2
                         [] OTHER -> LFail(st2, E_LPART_UNQUOTED_FWS)
         [] OTHER -> stp

L6Step(o, s, st, i) ==
  IF st.rc # RUN \/ i - 1 < st.idx THEN st             \* byte i already consumed by the decoder
  ELSE LET d == DecodeNext(s, st.idx, st.prev) IN
       IF d.cp = U_ERR THEN LFail(st, E_LPART_INVALID_UTF8)
       ELSE L6Char(o, s, st, d)

LocalRc6531(o, s) ==
  IF Len(s) = 0 THEN 0 - E_LPART_EMPTY
  ELSE LFinish(FoldLeft(LAMBDA st, i : L6Step(o, s, st, i), L6Init, Idx(s)))

LocalRc(o, m, s) == IF m = RFC6531 THEN LocalRc6531(o, s) ELSE LocalRcAscii(m, s)

(* M |= P, checked by TLC on every enumerated input *)
LocalConforms(o, m, s) ==
  LET e == LocalExp(o, m, s)  rc == LocalRc(o, m, s) IN
  /\ (e = 1 => rc = 0)
  /\ (e = 0 => rc < 0)
  /\ (rc < 0 => LTruthFull(o, m, 0 - rc, s))
=============================================================================
