------------------------------- MODULE MC_IpW -------------------------------
(* Automata-conformance suite for address literals (C05), derived by TLC from layer P like MC_LocalW:       *)
(* a state is a prefix x of the text after '[', its VIEW the signature LiteralExp("[" x w) over the          *)
(* characterising set W; breadth-first search keeps one shortest access string per signature.  The          *)
(* grammar has counters (groups, hex digits per group, octets, octet value, "::" seen), so the cover has     *)
(* a few hundred states reached only by long prefixes (seven groups, six groups and a dotted quad, ...).    *)
(* For every access string x, every byte b of Bytes and every w in W the vector of "[" x b w is emitted.     *)
EXTENDS IpLiteral, Json, TLC
CONSTANTS MaxDepth, Tier
VARIABLES x, k

one == <<49>>
Sym == { <<49>>, <<50>>, <<53>>, <<54>>, <<48>>, <<97>>, <<70>>, <<103>>, <<COLON>>, <<DOT>>, TagIPv6 }
RepSeq(u, n) == Concat([i \in 1..n |-> u])
\* suffixes completing an IPv4 address from each octet position, IPv6 tails with 0..7 further groups, "::" forms, dotted-quad tails
W4 == { d \o RepSeq(<<DOT, 49>>, j) \o <<RBR>> : d \in { <<>>, <<53>>, <<54>>, <<48>>, <<53, 53>> }, j \in 0..3 }
W6 == { RepSeq(<<COLON, 49>>, j) \o <<RBR>> : j \in 1..8 } \cup
      { <<COLON, COLON, RBR>>, <<COLON, COLON, 49, RBR>>, <<COLON, RBR>>, <<COLON, COLON, 49, DOT, 49, DOT, 49, DOT, 49, RBR>>,
        <<COLON, 49, DOT, 49, DOT, 49, DOT, 49, RBR>>, <<49, 49, 49, RBR>>, <<49, 49, 49, 49, RBR>>, <<RBR, 120>>, <<>>,
        <<COLON, COLON, 49, COLON, 49, RBR>> }
WSet == W4 \cup W6
W == SetToSeq(WSet)
NW == Len(W)
Dom(y) == <<LBR>> \o y
Sig(y) == [j \in 1..NW |-> LiteralExp(Dom(y \o W[j]))]
View == IF k >= 0 THEN <<0, Sig(x), <<>>>> ELSE <<k, <<>>, x>>
\* bytes tried in every state: all of them in the thorough tier, the structure bytes and neighbours of the class boundaries otherwise
Bytes == IF Tier >= 2 THEN (1..255) \ {AT}
         ELSE {1, SP, 37, 43, HYPHEN, DOT, 47, 48, 49, 50, 53, 54, 57, COLON, 59, 64 + 1, 70, 71, 73, LBR, RBR, 96, 97, 102, 103, 120, 128, 255}

Init == x = <<>> /\ k = 0
Next == \/ k >= 0 /\ k < MaxDepth /\ \E c \in Sym : x' = x \o c /\ k' = k + 1
        \/ k >= 0 /\ \E b \in Bytes : x' = Append(x, b) /\ k' = -1
        \/ k = -1 /\ \E j \in 1..NW : x' = x \o W[j] /\ k' = -2

D == Dom(x)
Inner == IF Bracketed(D) THEN Content(D) ELSE D
Vec == LET r == CheckIp(D) IN
       <<3, Len(D)>> \o D \o <<LiteralExp(D), LiteralFamily(D), r.rc, IF r.v4 THEN 1 ELSE 0, IF r.v6 THEN 1 ELSE 0>>
       \o <<Len(Inner)>> \o Inner \o <<V4Exp(Inner), V6Exp(Inner), Ipv4Rc(Inner, 0), Ipv6Rc(Inner, 0), IpaddrRc(Inner, 0)>>
Inv == CASE k = -2 -> LiteralConforms(D) /\ PrintT(ToJson(Vec))
         [] k >= 0 -> PrintT(<<"ACCESS", k, x>>)
         [] OTHER -> TRUE
=============================================================================
