------------------------------ MODULE MC_Email ------------------------------
(* Whole addresses.  Gen = 1: every string over {a . @ " [ ] 1 :} up to MaxLen.                       *)
(* Gen = 2: families - local-part pool x domain pool, local parts of 60..70 octets, several '@'.       *)
EXTENDS Email, Json, TLC
CONSTANTS MaxLen, Gen, OptBits
VARIABLES s, k

O == [rfc20 |-> (OptBits % 2) = 1, f5322 |-> ((OptBits \div 2) % 2) = 1, us |-> ((OptBits \div 4) % 2) = 1]
Alphabet == {97, DOT, AT, DQ, LBR, RBR, 49, COLON}

A(n) == Rep(97, n)
xcom == <<120, DOT, 99, 111, 109>>
LPool == { <<97>>, <<97, DOT, 98>>, <<DQ, 97, SP, 98, DQ>>, <<DQ, 97, AT, 98, DQ>>, <<97, DQ, 98>>, <<97, DOT, DOT, 98>>,
           <<DQ, 97, CR, LF, SP, DQ>>, <<DQ, 97, DQ, 98>>, <<195, 169>>, <<255>>, <<97, SP, 98>>, <<LPAR, 97>>, <<DOT, 97>>,
           <<97, HASH>>, <<DQ, BS, 1, DQ>>, <<DQ, 1, DQ>>, <<97, AT, 98>>, <<AT>>, <<>>,
           \* quoted specials: a colon, brackets, dots or '@' in the local part must not influence how the domain is judged
           <<DQ, COLON, DQ>>, <<DQ, 97, COLON, 98, DQ>>, <<DQ, LBR, DQ>>, <<DQ, RBR, DQ>>, <<DQ, 97, DOT, 98, DQ>>, <<DQ, LBR, 49, RBR, DQ>>,
           <<97, DOT, DQ, 98, DQ>>, <<49>>, <<49, DOT, 50>>, <<97, 1, 98>>, <<97, DEL>>, <<97, HASH, 123>>, <<DQ, 97, HT, 98, DQ>> }
DPool == { xcom, <<88, DOT, 67, 79, 77>>, xcom \o <<DOT>>, xcom \o <<DOT, DOT>>, S_localhost, S_example \o <<DOT>> \o S_org,
           <<97, DOT>> \o S_test, <<120, DOT, 122, 122>>, <<98>>, <<49, 50, 51, DOT, 52, 53>>, <<97, HYPHEN, DOT, 99, 111, 109>>,
           <<LBR, 49, DOT, 50, DOT, 51, DOT, 52, RBR>>, <<LBR>> \o TagIPv6 \o <<COLON, COLON, 49, 49, RBR>>,
           <<LBR, 49, DOT, 50, DOT, 51, DOT, 52, RBR, 120>>, <<97, LBR, 49, DOT, 50, DOT, 51, DOT, 52, RBR>>,
           <<LBR, 49, COLON, 50, COLON, 51, COLON, 52, COLON, 53, COLON, 54, COLON, 55, COLON, 56, RBR>>,
           <<120, 110, HYPHEN, HYPHEN, 112, 49, 97, 105>>, <<97, DOT, 120, 110, HYPHEN, HYPHEN, 112, 49, 97, 105>>,
           <<97, USCORE, 98, DOT, 99, 111, 109>>, A(64) \o <<DOT>> \o S_com, A(63) \o <<DOT>> \o S_com,
           <<97, DOT, 195, 169>>, <<SP, 120, DOT, 99, 111, 109>>,
           \* the 253 / 254 / 255 boundaries of the whole name, with and without root dot
           JoinWith(<<A(63), A(63), A(63), A(57), S_com>>, DOT), JoinWith(<<A(63), A(63), A(63), A(57), S_com>>, DOT) \o <<DOT>>,
           JoinWith(<<A(63), A(63), A(63), A(58), S_com>>, DOT), JoinWith(<<A(63), A(63), A(63), A(58), S_com>>, DOT) \o <<DOT>>,
           JoinWith(<<A(63), A(63), A(63), A(59), S_com>>, DOT), JoinWith(<<A(63), A(63), A(63), A(60), S_com>>, DOT),
           JoinWith(<<A(63), A(63), A(63), A(61), S_com>>, DOT), JoinWith(<<A(63), A(63), A(63), A(62), S_com>>, DOT),
           JoinWith(<<A(63), A(63), A(63), A(61), <<120>>, S_com>>, DOT),
           \* an underscore (or another non-LDH byte) inside the last label
           <<120, DOT, 99, USCORE, 111, 109>>, <<120, DOT, 109, 121, USCORE, 105, 110, 102, 111>>, <<109, 121, USCORE, 104, 111, 115, 116>>,
           <<120, DOT, 99, 33, 111, 109>>, <<>>, <<DOT>>, <<97, DOT, 97, 97, 97>>, <<97, DOT, 97, 114, 112, 97>> }
FamPool == { l \o <<AT>> \o d : l \in LPool, d \in DPool }
FamLen  == UNION { { A(n) \o <<AT>> \o xcom,
                     <<DQ>> \o A(n - 2) \o <<DQ, AT>> \o xcom,
                     JoinWith([i \in 1..(n \div 2) |-> <<97>>], DOT) \o <<AT>> \o xcom,
                     A(n) \o <<AT, LBR, 49, DOT, 50, DOT, 51, DOT, 52, RBR>>,
                     A(n - 2) \o <<195, 169, AT>> \o xcom,
                     <<DQ, 97, AT>> \o A(n - 4) \o <<DQ, AT>> \o xcom,           \* an '@' inside a quoted local part of n octets
                     <<DQ, AT>> \o A(n - 3) \o <<DQ, AT, LBR, 49, DOT, 50, DOT, 51, DOT, 52, RBR>>,
                     A(n) \o <<AT>>, A(n) \o <<AT, AT>>, A(n), <<AT>> \o A(n), A(n) \o <<AT, DOT>>, A(n) \o <<AT, LBR>>,
                     \* over-long AND syntactically wrong local parts (which reason is reported must not depend on the mode)
                     A(40) \o <<LPAR>> \o A(n - 41) \o <<AT>> \o xcom, A(n - 1) \o <<DOT, AT>> \o xcom, A(30) \o <<DOT, DOT>> \o A(n - 32) \o <<AT>> \o xcom,
                     <<DOT>> \o A(n - 1) \o <<AT>> \o xcom, A(n - 1) \o <<1, AT>> \o xcom, A(n - 1) \o <<SP, AT>> \o xcom } : n \in 58..70 }
           \cup UNION { { A(n) \o <<AT>> \o xcom, JoinWith([i \in 1..((n + 1) \div 2) |-> <<97>>], DOT) \o <<AT>> \o xcom,
                          <<DQ>> \o A(n) \o <<DQ, AT>> \o xcom, <<120, AT>> \o A(n) \o <<DOT>> \o S_com,
                          <<120, AT>> \o JoinWith(<<A(n), A(n), A((n % 60) + 1), S_com>>, DOT) } : n \in 1..57 }
           \* the last label (the one looked up in the TLD table) at every length 1..64, lower and upper case
           \cup UNION { { <<120, AT, 120, DOT>> \o A(n), <<120, AT, 120, DOT>> \o Rep(90, n), <<120, AT>> \o A(n) } : n \in 1..64 }
Family == FamPool \cup FamLen

Bucket(x) == IF Len(x) = 0 THEN 0 ELSE (Len(x) * 7 + x[Len(x)] + x[(Len(x) + 1) \div 2]) % 64
Init == s = <<>> /\ k = IF Gen = 1 THEN 0 ELSE -2
Next == \/ Gen = 1 /\ k < MaxLen /\ \E c \in Alphabet : s' = Append(s, c) /\ k' = k + 1
        \/ k = -2 /\ \E b \in 0..63 : s' = <<b>> /\ k' = -1
        \/ k = -1 /\ \E x \in Family : Bucket(x) = s[1] /\ s' = x /\ k' = MaxLen
Live == k >= 0
Inv == Live => (EmailAllConform(O, s) /\ PrintT(ToJson(EmailVec(OptBits, O, s))))
=============================================================================
