-------------------------------- MODULE Tld --------------------------------
(***************************************************************************)
(* TLD classification (C07, C11).  TldData is generated at check time from  *)
(* /repo/data/punycode.csv of the tree under test: TldRows is the sequence  *)
(* of CSV rows <<label bytes, IANA type (2..7), manager kind>> with manager  *)
(* kind 1 = "Not assigned...", 2 = "Retired...", 0 = anything else.         *)
(***************************************************************************)
EXTENDS Bytes, Codes, Special, TldData

(* the generator's documented rule (util/gentld.pl) *)
ClassOfRow(r) == IF r[3] = 1 THEN T_NOT_ASSIGNED ELSE IF r[3] = 2 THEN T_RETIRED ELSE r[2]
NRows      == Len(TldRows)
TldLabels  == {TldRows[i][1] : i \in 1..NRows}
\* label -> class (first row wins, as in the linear search of is_tld)
TldIndex   == [l \in TldLabels |-> ClassOfRow(TldRows[CHOOSE i \in 1..NRows : TldRows[i][1] = l /\ \A j \in 1..(i-1) : TldRows[j][1] # l])]
TldClassOfLabel(l) == LET k == LowerS(l) IN IF k \in TldLabels THEN TldIndex[k] ELSE 0 - E_TLD_INVALID

LastLabel(d) == LET ls == Split(d, DOT) IN ls[Len(ls)]

(* P: class of a valid host-name domain without root dot, TLD checking on *)
TldClassP(d) ==
  IF IsReserved(d) THEN T_SPECIAL
  ELSE IF ~Has(d, DOT) THEN 0 - E_DOMAIN_NOT_FQDN
  ELSE TldClassOfLabel(LastLabel(d))

(* M: check_tld on (ch + 1, end) *)
IsTldRc(l) == IF Len(l) = 0 THEN 0 - E_TLD_INVALID ELSE TldClassOfLabel(l)
CheckTldRc(d) ==
  IF SpecialRc(d) = 1 THEN T_SPECIAL
  ELSE LET p == LastPos(d, DOT) IN
       IF p = 0 THEN 0 - E_DOMAIN_NOT_FQDN
       ELSE IsTldRc(SubSeq(d, p + 1, Len(d)))

(* table well-formedness (C11): functional, lower-case LDH A-labels, classes in range *)
TableWellFormed ==
  /\ \A i \in 1..NRows : \A j \in 1..NRows : TldRows[i][1] = TldRows[j][1] => i = j
  /\ \A i \in 1..NRows : LET l == TldRows[i][1] IN
        /\ Len(l) \in 1..63
        /\ \A k \in 1..Len(l) : IsLowerc(l[k]) \/ IsDigit(l[k]) \/ l[k] = HYPHEN
        /\ ClassOfRow(TldRows[i]) \in TldClasses
=============================================================================
