------------------------------ MODULE MC_Host ------------------------------
(* Host names: bounded-exhaustive strings over {letter, digit, '-', '.', '_', other} (Gen = 1)   *)
(* and parametrised families for the 63 / 253 limits and per-byte sweeps (Gen = 2).              *)
EXTENDS Hostname, Json, TLC
CONSTANTS MaxLen, Gen, OptBits
VARIABLES s, k

O == [rfc20 |-> (OptBits % 2) = 1, f5322 |-> ((OptBits \div 2) % 2) = 1, us |-> ((OptBits \div 4) % 2) = 1]
Alphabet == {97, 49, HYPHEN, DOT, USCORE, 33}
Lab(n) == Rep(97, n)
ab == <<97, 98>>
com == <<99, 111, 109>>
\* label length 0..70 in first / middle / last position, alone, with and without root dot
FamLabel == UNION { { JoinWith(<<Lab(n), ab, com>>, DOT), JoinWith(<<ab, Lab(n), com>>, DOT),
                      JoinWith(<<ab, com, Lab(n)>>, DOT), Lab(n), Lab(n) \o <<DOT>>,
                      JoinWith(<<ab, Lab(n)>>, DOT) \o <<DOT>>,
                      JoinWith(<<Rep(49, n), com>>, DOT), JoinWith(<<Lab(n) \o <<HYPHEN>> \o ab, com>>, DOT),
                      JoinWith(<<ab \o <<HYPHEN>> \o Lab(n), com>>, DOT),
                      JoinWith(<<Rep(USCORE, n), com>>, DOT), JoinWith(<<Lab(n) \o <<USCORE>>, com>>, DOT),
                      JoinWith(<<ab, Lab(60) \o Rep(USCORE, n % 12)>>, DOT), JoinWith(<<<<USCORE>> \o Lab(n), com>>, DOT),
                      JoinWith(<<Lab(n % 8) \o <<HYPHEN>> \o Lab(60), com>>, DOT) } : n \in 0..70 }
\* total length 240..260 with 5 labels, with / without root dot, two dots at the end, last label numeric
FamTotal == UNION { LET base == JoinWith(<<Lab(50), Lab(50), Lab(50), Lab(50), Lab(x)>>, DOT) IN
                    { base, base \o <<DOT>>, base \o <<DOT, DOT>>,
                      JoinWith(<<Lab(50), Lab(50), Lab(50), Lab(50), Rep(49, x)>>, DOT) } : x \in 37..57 }
\* every byte value at the first / interior / last position of a first, middle and last label
FamByte == UNION { { <<b, 97, 98>> \o <<DOT>> \o com, <<97, b, 98>> \o <<DOT>> \o com, <<97, 98, b>> \o <<DOT>> \o com,
                     ab \o <<DOT>> \o <<b, 97>>, ab \o <<DOT>> \o <<97, b>>, ab \o <<DOT>> \o <<97, b, 97>>,
                     <<b>>, <<b, DOT>>, <<DOT, b>>, ab \o <<DOT, b, DOT>> \o com, ab \o <<b>> } : b \in 1..255 }
\* long labels: every length 64..260 (8-bit counters wrap at 128 and 256), alone in front of a TLD and as last label
FamLong == UNION { { JoinWith(<<Lab(n), com>>, DOT), JoinWith(<<ab, Lab(n)>>, DOT), JoinWith(<<ab, Lab(n), com>>, DOT) \o <<DOT>> } : n \in 64..260 }
\* a dot at every position around octet 254 of names of 250..262 octets
FamDot254 == UNION { { JoinWith(<<Lab(63), Lab(63), Lab(63), Lab(j), com>>, DOT), JoinWith(<<Lab(63), Lab(63), Lab(63), Lab(j), ab, com>>, DOT) } : j \in 54..63 }
Family == FamLabel \cup FamTotal \cup FamByte \cup FamLong \cup FamDot254

\* families are spread over 64 buckets (k = -1: bucket chosen) so that all workers share the evaluation
Bucket(x) == IF Len(x) = 0 THEN 0 ELSE (Len(x) * 7 + x[Len(x)] + x[(Len(x) + 1) \div 2]) % 64
Init == s = <<>> /\ k = IF Gen = 1 THEN 0 ELSE -2
Next == \/ Gen = 1 /\ k < MaxLen /\ \E c \in Alphabet : s' = Append(s, c) /\ k' = k + 1
        \/ k = -2 /\ \E b \in 0..63 : s' = <<b>> /\ k' = -1
        \/ k = -1 /\ \E x \in Family : Bucket(x) = s[1] /\ s' = x /\ k' = MaxLen
Live == k >= 0

\* [2, optbits, n, bytes.., exp, mrc]
Vec == <<2, OptBits, Len(s)>> \o s \o <<HostExp(O, s), HostRc(O, s)>>
Inv == Live => (HostConforms(O, s) /\ PrintT(ToJson(Vec)))
=============================================================================
