------------------------------ MODULE Threads ------------------------------
(***************************************************************************)
(* C14: several threads, each with its own eav_t (or calling the stateless  *)
(* per-part validators), over shared read-only strings and tables.          *)
(* Memory is a set of cells: one private cell per thread (its eav_t and      *)
(* result), the shared read-only cells (input strings, tld_list and the      *)
(* other tables) and SharedWritable - the writable static storage of the     *)
(* library.  SharedWritable is not assumed: the check extracts it from the   *)
(* object files of the build under test (every symbol in .data / .bss /      *)
(* .tdata / .tbss) and passes it in; each library call is modelled           *)
(* conservatively as reading and writing all of it.  A call is two steps     *)
(* (begin, end) so that calls of different threads overlap in every order.   *)
(***************************************************************************)
EXTENDS Integers, Sequences, FiniteSets, TLC
CONSTANTS NThreads, NCalls, SharedWritable
VARIABLES pc, active, done, log

Threads == 1..NThreads
\* cells are pairs <<kind, id>> so that they are comparable
ReadOnly == {<<"ro", "strings">>, <<"ro", "tables">>}
Own(t) == <<"own", ToString(t)>>
Statics == {<<"static", x>> : x \in SharedWritable}
\* cells a call of thread t touches: reads R, writes W
R(t) == ReadOnly \cup {Own(t)} \cup Statics
W(t) == {Own(t)} \cup Statics

Init == pc = [t \in Threads |-> 0] /\ active = {} /\ done = [t \in Threads |-> 0] /\ log = {}
Begin(t) == t \notin active /\ pc[t] < NCalls /\ active' = active \cup {t} /\ UNCHANGED <<pc, done>>
            /\ log' = log \cup {<<t, u>> : u \in active}        \* t's call overlaps the calls in flight
End(t)   == t \in active /\ active' = active \ {t} /\ pc' = [pc EXCEPT ![t] = @ + 1]
            /\ done' = [done EXCEPT ![t] = @ + 1] /\ UNCHANGED log
Next == \E t \in Threads : Begin(t) \/ End(t)
Spec == Init /\ [][Next]_<<pc, active, done, log>>

\* two overlapping calls never touch a common cell that one of them writes
Conflict(t, u) == (W(t) \cap (R(u) \cup W(u))) \cup (W(u) \cap (R(t) \cup W(t)))
NoDataRace == \A p \in log : p[1] # p[2] => Conflict(p[1], p[2]) = {}
\* every thread performs exactly its own calls, independent of the interleaving
Sequential == \A t \in Threads : done[t] = pc[t] /\ done[t] <= NCalls
=============================================================================
