----------------------------- MODULE Trace_Table -----------------------------
(* C11: translation validation of the TLD table.  The specification of the table is TldData (the CSV of   *)
(* the tree under test) with the generator's documented classification rule ClassOfRow.  Three programs   *)
(* are validated against it as traces of "row" events in table order:                                     *)
(*   src "compiled"  - tld_list[] as linked into the library (dumped through the exported symbol)         *)
(*   src "generated" - the rows of src/auto_tld.c freshly produced by util/gentld.pl from the CSV          *)
(*   src "domains"   - the lines of data/tld-domains.txt freshly produced by util/gen_utf8_pass_test.pl   *)
(*   src "uconv"     - the IDN converter's A-label of each U-label row of data/raw.csv (the two CSVs name  *)
(*                     the same TLDs in the same order)                                                    *)
(* plus "lookup" events: is_tld called on every row's label and on non-rows.                              *)
EXTENDS Tld, Json, IOUtils, TLC
VARIABLES l, seen      \* seen[src] = number of row events of that program consumed so far

TraceLog == ndJsonDeserialize(IOEnv.TRACE)
N == Len(TraceLog)

Srcs == {"compiled", "generated", "domains", "uconv"}
RowBody(ev, i) ==
  IF ev.src = "domains" THEN i \in 1..NRows /\ ev.d = TldU[i] \o <<DOT>> \o TldU[i]
  \* the U-label of row i of data/raw.csv converts (len = the converter's code) to the A-label of row i of data/punycode.csv
  ELSE IF ev.src = "uconv" THEN i \in 1..NRows /\ ev.d = TldU[i] /\ ev.len = 0 /\ ev.a = TldRows[i][1]
  ELSE IF ev.term = 1 THEN i = NRows + 1 /\ ev.len = 0 /\ ev.type = 0      \* the { NULL, 0, 0 } terminator right after the last row
  ELSE /\ i \in 1..NRows
       /\ ev.d = TldRows[i][1]                     \* same label, same order as the CSV
       /\ ev.len = Len(ev.d) + 1                   \* length = strlen + 1 (whole-label comparison)
       /\ ev.type = ClassOfRow(TldRows[i])
\* rows arrive in table order, none missing, none twice
RowOk(ev) == ev.i = seen[ev.src] + 1 /\ RowBody(ev, ev.i)
CountOk(ev) == ev.n = NRows /\ seen[ev.src] >= NRows
LookupOk(ev) == ev.rc = IsTldRc(ev.in)
EventOk(ev) ==
  CASE ev.e = "row" -> RowOk(ev)
    [] ev.e = "count" -> CountOk(ev)
    [] ev.e = "lookup" -> LookupOk(ev)
    [] OTHER -> FALSE

Bump(ev, sn) == IF ev.e = "row" THEN [sn EXCEPT ![ev.src] = @ + 1] ELSE sn
Init == l = (IF N = 0 THEN 0 ELSE 1) /\ seen = [x \in Srcs |-> 0]
Next == l # 0 /\ l < N /\ l' = l + 1 /\ seen' = Bump(TraceLog[l], seen)
vars == <<l, seen>>
Ok   == l = 0 \/ ((l = 1 => TableWellFormed) /\ (EventOk(TraceLog[l]) \/ PrintT(<<"BAD", l>>)))
=============================================================================
