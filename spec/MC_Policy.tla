------------------------------ MODULE MC_Policy ------------------------------
(* C08: the allow_tld / tld_check policy, enumerated completely.                                     *)
(*  Part = 1: every mask over bits 0..10 x every result code -35..9 x four modes: the outcome of      *)
(*            eav_is_email when the per-mode function returns that code (replayed with a               *)
(*            caller-installed callback, the callback fields being public).                            *)
(*  Part = 2: one real address per TLD class present in the table (and a reserved domain, an          *)
(*            unlisted TLD, a single label, a literal) x every mask x four modes x tld_check.          *)
(*  Part = 3: the defaults selected by eav_init.                                                       *)
EXTENDS Eav, Json, TLC
CONSTANTS Part
VARIABLES v, k

O == DefaultOpts
\* layer P: acceptance iff the class bit is allowed
PolicyP(mask, rc) == IF rc = 0 THEN <<1, 0>>
                     ELSE IF rc < 0 THEN <<0, 0 - rc>>
                     ELSE IF ClassBit(rc) \in mask THEN <<1, 0>> ELSE <<0, ClassErr(rc)>>
\* layer M: the switch of eav_is_email, arm by arm (enum names as numbers)
SwitchM(mask, rc) ==
  IF rc = 0 THEN <<1, 0>> ELSE IF rc < 0 THEN <<0, 0 - rc>>
  ELSE LET arm == CASE rc = T_NOT_ASSIGNED -> <<E_TLD_NOT_ASSIGNED, 2>>
                    [] rc = T_COUNTRY_CODE -> <<E_TLD_COUNTRY_CODE, 3>>
                    [] rc = T_GENERIC -> <<E_TLD_GENERIC, 4>>
                    [] rc = T_GENERIC_RESTRICTED -> <<E_TLD_GENERIC_RESTRICTED, 5>>
                    [] rc = T_INFRASTRUCTURE -> <<E_TLD_INFRASTRUCTURE, 6>>
                    [] rc = T_SPONSORED -> <<E_TLD_SPONSORED, 7>>
                    [] rc = T_TEST -> <<E_TLD_TEST, 8>>
                    [] rc = T_SPECIAL -> <<E_TLD_SPECIAL, 9>>
                    [] rc = T_RETIRED -> <<E_TLD_RETIRED, 10>>
       IN IF arm[2] \in mask THEN <<1, 0>> ELSE <<0, arm[1]>>

MaskOf(n) == {b \in 0..10 : (n \div (2 ^ b)) % 2 = 1}
Codes == (-35..-2) \cup (0..9)       \* -1 (EEAV_INVALID_RFC) is never a result code

x == <<120>>
RowOfClass(c) == {i \in 1..NRows : ClassOfRow(TldRows[i]) = c}
ClassDomains == { JoinWith(<<x, TldRows[CHOOSE i \in RowOfClass(c) : TRUE][1]>>, DOT) : c \in {c \in TldClasses : RowOfClass(c) # {}} }
UpB(b) == IF b \in 97..122 THEN b - 32 ELSE b
Domains == ClassDomains \cup { [i \in 1..Len(dd) |-> UpB(dd[i])] : dd \in ClassDomains } \cup { JoinWith(<<S_example, S_org>>, DOT), S_localhost, <<120, DOT, 122, 122, 122, 113>>, <<120>>,
                               <<LBR, 49, DOT, 50, DOT, 51, DOT, 52, RBR>>, <<LBR>> \o TagIPv6 \o <<COLON, COLON, 49, RBR>>, <<120, HYPHEN>> }
DomSeq == SetToSeq(Domains)

Init == v = <<>> /\ k = 0
Next == \/ Part = 1 /\ k = 0 /\ \E n \in 0..2047 : v' = <<n>> /\ k' = 1
        \/ Part = 1 /\ k = 1 /\ \E rc \in Codes : \E m \in 0..3 : v' = <<v[1], rc, m>> /\ k' = 2
        \/ Part = 2 /\ k = 0 /\ \E n \in 0..2047 : v' = <<n>> /\ k' = 1
        \/ Part = 2 /\ k = 1 /\ \E j \in 1..Len(DomSeq) : \E m \in 0..3 : \E t \in 0..1 : v' = <<v[1], j, m, t>> /\ k' = 2
        \/ Part = 3 /\ k = 0 /\ v' = <<0>> /\ k' = 2

\* [9, modeEnum, mask, rc, eret, eerr]
Vec1 == LET p == PolicyP(MaskOf(v[1]), v[2]) IN <<9, v[3], v[1], v[2], p[1], p[2]>>
\* [11, modeEnum, tld, mask, n, address.., pinned, eret, eerr]
Addr2 == <<97, AT>> \o DomSeq[v[2]]
Vec2 == LET mode == ModeOfEnum(v[3])  tld == v[4] = 1
            out == Outcome(O, mode, tld, MaskOf(v[1]), ConvAscii(DomSeq[v[2]]), Addr2)
            pin == EmailP(O, mode, tld, Addr2)
        IN <<11, v[3], v[4], v[1], Len(Addr2)>> \o Addr2 \o <<IF pin.exp \in {0, 1, 3} THEN 1 ELSE 0, out.ret, out.err>>
\* [10, rfc enum, tld_check, allow mask]
Vec3 == LET st == EavInit(Raw) IN <<10, st.rfc, IF st.tld THEN 1 ELSE 0>> \o <<FoldLeft(LAMBDA a, b : a + (IF b \in st.allow THEN 2 ^ b ELSE 0), 0, [i \in 1..11 |-> i - 1])>>

Inv == k = 2 =>
         CASE Part = 1 -> PolicyP(MaskOf(v[1]), v[2]) = SwitchM(MaskOf(v[1]), v[2]) /\ PrintT(ToJson(Vec1))
           [] Part = 2 -> PrintT(ToJson(Vec2))
           [] Part = 3 -> /\ EavInit(Raw).rfc = 3 /\ EavInit(Raw).tld
                          /\ EavInit(Raw).allow = {ClassBit(c) : c \in TldClasses \ {T_NOT_ASSIGNED, T_TEST, T_RETIRED}}
                          /\ PrintT(ToJson(Vec3))
\* each class is governed by its own bit only: flipping any other bit never changes the outcome
OwnBitOnly == k = 2 /\ Part = 1 /\ v[2] \in 1..9 =>
                \A b \in (0..10) \ {ClassBit(v[2])} :
                   PolicyP(MaskOf(v[1]) \cup {b}, v[2]) = PolicyP(MaskOf(v[1]) \ {b}, v[2])
=============================================================================
