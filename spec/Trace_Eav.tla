------------------------------ MODULE Trace_Eav ------------------------------
(* Direction B for the object: a recorded sequence of public calls on one real eav_t (random legal         *)
(* histories of a few hundred calls drawn by the driver) is replayed through the object model of           *)
(* spec/Eav.tla.  The model supplies what cannot be observed (the mode confirmed by the last successful    *)
(* eav_setup, legality of the call); the recorded observations are checked against                         *)
(*   - history independence: the outcome equals the recorded outcome of a fresh object with the same       *)
(*     settings and the confirmed mode (C13), and what layer P pins for that mode (Trace_Func's clauses)   *)
(*   - policy and diagnostics: ret / errcode follow from the result code and allow_tld; the message is     *)
(*     the IDN library's for IDN errors and otherwise talks about the right thing (C08, C15)               *)
(*   - eav_errstr describes the most recent validation or refused eav_setup (C13, C15)                     *)
(*   - eav_free leaves nothing allocated (C06, C13)                                                        *)
(*   - C13 as stated: over the whole recorded process (all objects, all histories) the outcome is a        *)
(*     function of (confirmed mode, tld_check, allow_tld, address): the history variable `seen` keeps the   *)
(*     first outcome of every such tuple and a later, different outcome fails clause "function"            *)
(* Disagreement with the model's own predicted values is only counted (drift).                             *)
EXTENDS Eav, Json, IOUtils, TLC
VARIABLES l, st, lastErr, ref,     \* ref = reference messages of the build, logged at reset
          seen                     \* (confirmed mode, tld_check, allow_tld, address) -> outcome, over the whole process

TraceLog == ndJsonDeserialize(IOEnv.TRACE)
N == Len(TraceLog)
O == DefaultOpts
vars == <<l, st, lastErr, ref, seen>>

MaskSet(n) == {b \in 0..10 : (n \div (2 ^ b)) % 2 = 1}
Fails(name, cond) == IF cond THEN {} ELSE {name}

\* messages are logged as bytes; their wording is free: what is required is that "no error" is said exactly
\* when there is none, that a refused eav_setup is reported with the text a fresh object gives for it (and that
\* this is not the "no error" text), and that every other rejection has a non-empty text of its own
MsgOk(err, msg, rf) ==
  CASE err = 0 -> msg = rf.noerr
    [] err = E_INVALID_RFC -> msg = rf.badrfc /\ rf.badrfc # rf.noerr /\ Len(msg) > 0
    [] OTHER -> Len(msg) > 0 /\ msg # rf.noerr

ConvOfEv(ev) == IF "cc" \in DOMAIN ev THEN [code |-> ev.cc, out |-> ev.co]
                ELSE ConvAscii(IF AtPos(ev.in) \in 1..(Len(ev.in) - 1) THEN DPart(ev.in) ELSE <<>>)

\* the step of the model for an event, and the clauses the observation fails
StepOf(ev, s) ==
  CASE ev.e = "reset" -> Raw
    [] ev.e = "init" -> EavInit(s)
    [] ev.e = "set_rfc" -> SetRfc(s, ev.v)
    [] ev.e = "set_tld" -> SetTld(s, ev.v = 1)
    [] ev.e = "set_allow" -> SetAllow(s, MaskSet(ev.v))
    [] ev.e = "setup" -> EavSetup("idn2", s)
    [] ev.e = "is_email" -> EavIsEmail(O, s, ev.in, ConvOfEv(ev))
    [] ev.e = "errstr" -> EavErrstr(s)
    [] ev.e = "free" -> EavFree("idn2", s)

KeyOf(ev, s) == <<s.confirmed, s.tld, s.allow, ev.in>>
OutcomeOfEv(ev) == <<ev.ret, ev.err, ev.rc, ev.fl, ev.idn, ev.msg>>
IsEmailWhy(ev, s, rf, sn) ==
  LET obsres == [rc |-> ev.rc, v4 |-> ev.fl = 1, v6 |-> ev.fl = 2, dom |-> ev.fl = 4, idn |-> ev.idn]
      pol == OutcomeOf(obsres, s.allow)
      p == EmailP(O, s.confirmed, s.tld, ev.in) IN
  Fails("legal", CanValidate(s)) \cup
  Fails("history", <<ev.ret, ev.err, ev.rc, ev.fl>> = ev.fresh) \cup
  Fails("function", KeyOf(ev, s) \in DOMAIN sn => sn[KeyOf(ev, s)] = OutcomeOfEv(ev)) \cup
  Fails("policy", ev.ret = pol.ret /\ ev.err = pol.err) \cup
  Fails("decision", (p.exp = 1 => ev.rc >= 0) /\ (p.exp = 0 => ev.rc < 0) /\ (p.exp \in {0, 1} /\ p.erc # NOPIN => ev.rc = p.erc)) \cup
  Fails("message", (ev.err = E_IDN_ERROR => ev.msgidn = 1) /\ MsgOk(ev.err, ev.msg, rf)) \cup
  Fails("idn", ("cc" \in DOMAIN ev /\ ev.cc # 0 /\ s.confirmed = RFC6531 /\ p.exp = 3) => ev.err = E_IDN_ERROR /\ ev.fl = 0 /\ ev.idn = ev.cc)

WhyEv(ev, s, le, rf, sn) ==
  CASE ev.e = "is_email" -> IsEmailWhy(ev, s, rf, sn)
    [] ev.e = "setup" -> Fails("setup", CanUse(s) /\ ev.ret = (IF s.rfc \in 0..3 THEN 0 ELSE E_INVALID_RFC))
    [] ev.e = "errstr" -> Fails("errstr", CanUse(s) /\ ev.null = 0 /\ ev.err = le /\ MsgOk(ev.err, ev.msg, rf))
    [] ev.e = "free" -> Fails("heap", ev.live = 0 /\ ev.badfree = 0)
    [] ev.e \in {"reset", "init", "set_rfc", "set_tld", "set_allow"} -> {}
    [] OTHER -> {"unknown event"}

\* the error the most recent validation / refused setup left behind, taken from the observations
NextErr(ev, le) == CASE ev.e = "is_email" -> ev.err
                     [] ev.e = "setup" /\ ev.ret # 0 -> E_INVALID_RFC
                     [] ev.e \in {"init", "reset"} -> 0
                     [] OTHER -> le

Init == l = 0 /\ st = Raw /\ lastErr = 0 /\ ref = [noerr |-> <<>>, badrfc |-> <<>>] /\ seen = <<>>
Next == /\ l < N
        /\ l' = l + 1
        /\ st' = StepOf(TraceLog[l + 1], st)
        /\ lastErr' = NextErr(TraceLog[l + 1], lastErr)
        /\ ref' = (IF TraceLog[l + 1].e = "reset" THEN [noerr |-> TraceLog[l + 1].noerr, badrfc |-> TraceLog[l + 1].badrfc] ELSE ref)
        /\ seen' = (LET ev == TraceLog[l + 1] IN
                    IF ev.e = "is_email" /\ KeyOf(ev, st) \notin DOMAIN seen THEN (KeyOf(ev, st) :> OutcomeOfEv(ev)) @@ seen ELSE seen)
\* evaluated in the state BEFORE event l+1 is consumed
Ok == l = N \/ WhyEv(TraceLog[l + 1], st, lastErr, ref, seen) = {} \/ PrintT(<<"BAD", l + 1, WhyEv(TraceLog[l + 1], st, lastErr, ref, seen)>>)
\* the model itself never detects a misuse of memory by the library along the recorded history
ModelOk == NoMisuse(st) /\ HeapOk(st)
=============================================================================
