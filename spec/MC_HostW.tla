------------------------------- MODULE MC_HostW -------------------------------
(* Automata-conformance suite for host names (C04, C17 underscore option), derived by TLC from layer P     *)
(* like MC_LocalW: a state is a prefix, its VIEW the signature IsHostname(prefix \o w) over W.  The         *)
(* characterising set contains label tails of 1, 2, 61, 62, 63 letters and name tails reaching 253/254      *)
(* octets, so the cover separates "label length so far" and "name length so far" as far as the limits       *)
(* can tell them apart.                                                                                     *)
EXTENDS Hostname, Json, TLC
CONSTANTS OptBits, MaxDepth, Tier
VARIABLES s, k

O == [rfc20 |-> (OptBits % 2) = 1, f5322 |-> ((OptBits \div 2) % 2) = 1, us |-> ((OptBits \div 4) % 2) = 1]
a == 97
A(n) == Rep(a, n)
\* symbols of access strings: single characters and whole runs (so that the counters are reached in few steps)
Sym == { <<a>>, <<49>>, <<HYPHEN>>, <<DOT>>, <<USCORE>>, A(30), A(31), A(60), A(63) \o <<DOT>> }
WSet == { <<>>, <<a>>, <<49>>, <<HYPHEN>>, <<DOT>>, <<DOT, a>>, <<DOT, 49>>, <<HYPHEN, a>>, <<DOT, HYPHEN, a>>, <<USCORE, a>>, <<DOT, DOT, a>>,
          A(2), A(3), A(32), A(33), A(61), A(62), A(63), <<DOT>> \o A(63), <<DOT>> \o A(61), <<DOT>> \o A(60), <<DOT>> \o A(59),
          <<DOT>> \o A(58) \o <<DOT>>, <<DOT>> \o A(61) \o <<DOT>> }
        \* tails that bring a name of 64 / 128 octets to 252..254
        \cup { A(63) \o <<DOT>> \o A(n) : n \in 60..62 } \cup { A(63) \o <<DOT>> \o A(63) \o <<DOT>> \o A(n) : n \in 60..62 }
W == SetToSeq(WSet)
NW == Len(W)
Sig(y) == [j \in 1..NW |-> HostExp(O, y \o W[j])]
View == IF k >= 0 THEN <<0, Sig(s), <<>>>> ELSE <<k, <<>>, s>>
Bytes == IF Tier >= 2 THEN 1..255
         ELSE {1, SP, 33, 43, HYPHEN, DOT, 47, 48, 49, 57, 58, 64, 65, 90, 91, 94, USCORE, 96, 97, 122, 123, 127, 128, 195, 255}

Init == s = <<>> /\ k = 0
Next == \/ k >= 0 /\ k < MaxDepth /\ \E c \in Sym : s' = s \o c /\ k' = k + 1
        \/ k >= 0 /\ \E b \in Bytes : s' = Append(s, b) /\ k' = -1
        \/ k = -1 /\ \E j \in 1..NW : s' = s \o W[j] /\ k' = -2

Vec == <<2, OptBits, Len(s)>> \o s \o <<HostExp(O, s), HostRc(O, s)>>
Inv == CASE k = -2 -> HostConforms(O, s) /\ PrintT(ToJson(Vec))
         [] k >= 0 -> PrintT(<<"ACCESS", k, Len(s), IF Len(s) <= 12 THEN s ELSE SubSeq(s, 1, 12)>>)
         [] OTHER -> TRUE
=============================================================================
