------------------------------ MODULE MC_LocalW ------------------------------
(* Automata-conformance suite for the local-part grammars (C02, C03, C17), derived by TLC from layer P.     *)
(*                                                                                                           *)
(* Two prefixes are the same state of the (product of the four modes') grammar automaton when no suffix      *)
(* tells them apart (Myhill-Nerode).  TLC is used as the learner: a state of this spec is a prefix p, the     *)
(* VIEW maps it to its signature - layer P's verdict on p \o w for every suffix w of the characterising set   *)
(* W, in every mode - so breadth-first search keeps exactly one (a shortest) access string per signature      *)
(* and extends only those: the reachable "states" are a state cover of the automaton as far as W can          *)
(* distinguish.  For every access string p, every byte b in 1..255 and every w in W the vector of             *)
(* p \o <<b>> \o w is emitted (transition cover x W: the W-method test suite); the replay driver executes     *)
(* it on the four real scanners.  Unlike MC_LocalSweep's hand-written access strings, the cover follows       *)
(* the grammar of the options (OptBits) and reaches states that need several words, escapes and folding.      *)
EXTENDS LocalPart, Json, TLC
CONSTANTS OptBits, MaxDepth, EmitCli
VARIABLES p, k          \* k >= 0: access string of length class k; k = -1: p = access . byte; k = -2: p = access . byte . w

O == [rfc20 |-> (OptBits % 2) = 1, f5322 |-> ((OptBits \div 2) % 2) = 1, us |-> ((OptBits \div 4) % 2) = 1]
a == 97
ModeSeq == <<RFC822, RFC5321, RFC5322, RFC6531>>
\* input symbols used to build access strings (one representative per class of the grammars)
Sym == { <<a>>, <<DOT>>, <<DQ>>, <<BS>>, <<SP>>, <<HT>>, <<CR>>, <<LF>>, <<1>>, <<LPAR>>, <<HASH>>, <<195, 169>>, <<255>> }
\* characterising set
W == << <<>>, <<a>>, <<DQ>>, <<DOT, a>>, <<DQ, a>>, <<BS, DQ>>, <<SP, DQ>>, <<a, DQ>>, <<DQ, DOT, a>>, <<DOT>>, <<LF, SP, DQ>>,
        <<SP, a, DQ>>, <<BS, BS, DQ>>, <<DQ, DOT, HASH>>, <<HASH>>, <<LF, a, DQ>>, <<169>> >>
NW == Len(W)
Sig(x) == [j \in 1..(4 * NW) |-> LocalExp(O, ModeSeq[((j - 1) % 4) + 1], x \o W[((j - 1) \div 4) + 1])]
View == IF k >= 0 THEN <<0, Sig(p), <<>>>> ELSE <<k, <<>>, p>>

Init == p = <<>> /\ k = 0
Next == \/ k >= 0 /\ k < MaxDepth /\ \E c \in Sym : p' = p \o c /\ k' = k + 1
        \/ k >= 0 /\ \E b \in 1..255 : p' = Append(p, b) /\ k' = -1
        \/ k = -1 /\ \E j \in 1..NW : p' = p \o W[j] /\ k' = -2

C12Applies == IsAsciiSeq(p) /\ ~Has(p, DQ) /\ ~Has(p, BS) /\ ~O.rfc20 /\ ~O.f5322
Vec == <<1, OptBits, Len(p)>> \o p \o <<IF C12Applies THEN 1 ELSE 0>> \o
       Concat([j \in 1..4 |-> <<LocalExp(O, ModeSeq[j], p), LocalRc(O, ModeSeq[j], p)>>])
(* EmitCli: the same suite as lines of a file for the eav tool, which links its own, single-cursor copy of the UTF-8 decoder in front  *)
(* of the library's.  A vector [25, n, bytes..] says: Cli.tla hands the line  p@x.com  to the library unchanged and it is no comment. *)
CL == INSTANCE Cli
CliLine == p \o <<AT, 120, DOT, 99, 111, 109>>
CliSafe == ~Has(p, LF) /\ ~Has(p, 0) /\ ~CL!Commented(CliLine \o <<LF>>) /\ CL!Address(CliLine \o <<LF>>) = CliLine
EmitLine == (EmitCli /\ CliSafe) => PrintT(ToJson(<<25, Len(CliLine)>> \o CliLine))
Inv == CASE k = -2 -> (\A m \in Modes : LocalConforms(O, m, p)) /\ PrintT(ToJson(Vec)) /\ EmitLine
         [] k >= 0 -> PrintT(<<"ACCESS", k, p>>)
         [] OTHER -> TRUE
=============================================================================
