-------------------------------- MODULE Eav --------------------------------
(***************************************************************************)
(* The high-level object eav_t (partial/<backend>/eav.c, src/eav.c) as a     *)
(* state machine: one action per public call (eav_init, eav_setup,           *)
(* eav_is_email, eav_errstr, eav_free) and one per public field the user     *)
(* may write (rfc, tld_check, allow_tld).  The state is a record so that     *)
(* the model-checking spec (MC_Eav) and the trace spec (Trace_Eav) share     *)
(* the same step operators.                                                  *)
(*                                                                           *)
(* Fields mirror the struct: rfc, tld, allow (set of bit numbers), utf8,     *)
(* acb / ucb (the callbacks, named by mode, 0 = NULL), inited, errcode,      *)
(* idnmsg (IDN code whose message is pointed to; NOMSG = NULL), res (the     *)
(* result record or NORES).  Ghost fields: life, defined (fields holding a   *)
(* defined value), confirmed (mode confirmed by the last successful          *)
(* eav_setup, 0 = none), live (result allocations alive), ctx (backend       *)
(* contexts alive: idnkit only), bad (a detected misuse of memory /          *)
(* resources by the library itself), obs (what the last call returned).      *)
(***************************************************************************)
EXTENDS Email

NORES == [rc |-> 1000, v4 |-> FALSE, v6 |-> FALSE, dom |-> FALSE, idn |-> 0]
NOMSG == 1000
UNDEF == 2000
AllFields == {"rfc", "tld", "allow", "utf8", "acb", "ucb", "inited", "errcode", "idnmsg", "res"}

Raw == [life |-> "raw", rfc |-> UNDEF, tld |-> FALSE, allow |-> {}, utf8 |-> FALSE, acb |-> 0, ucb |-> 0,
        inited |-> FALSE, errcode |-> 0, idnmsg |-> UNDEF, res |-> NORES,
        defined |-> {}, confirmed |-> 0, live |-> 0, ctx |-> 0, bad |-> "", obs |-> <<"none">>]

Flag(st, why) == IF st.bad = "" THEN [st EXCEPT !.bad = why] ELSE st
\* reading a field that holds no defined value
Read(st, fs) == IF fs \subseteq st.defined THEN st ELSE Flag(st, "read of undefined field")

(* eav_init: writes every field except those the backend does not have *)
EavInit(st) ==
  [st EXCEPT !.life = "live", !.utf8 = FALSE, !.rfc = 3, !.tld = TRUE, !.allow = DefaultAllow,
             !.ucb = 0, !.acb = 0, !.inited = FALSE, !.errcode = 0, !.idnmsg = NOMSG, !.res = NORES,
             !.defined = AllFields, !.confirmed = 0, !.obs = <<"init">>,
             !.bad = IF st.life = "live" /\ (st.live > 0 \/ st.ctx > 0) THEN "eav_init over a live object" ELSE st.bad]

SetRfc(st, v)    == [st EXCEPT !.rfc = v, !.obs = <<"set">>]
SetTld(st, b)    == [st EXCEPT !.tld = b, !.obs = <<"set">>]
SetAllow(st, m)  == [st EXCEPT !.allow = m, !.obs = <<"set">>]

(* eav_setup *)
EavSetup(backend, st0) ==
  LET st == Read(st0, {"rfc", "inited"}) IN
  IF st.rfc \in 0..2 THEN
       LET rel == st.inited /\ backend = "idnkit" IN
       [st EXCEPT !.acb = ModeOfEnum(st.rfc), !.inited = FALSE, !.utf8 = FALSE,
                  !.ctx = IF rel THEN @ - 1 ELSE @,
                  !.bad = IF rel /\ st.ctx = 0 THEN "backend context destroyed twice" ELSE @,
                  !.confirmed = ModeOfEnum(st.rfc), !.obs = <<"setup", 0>>]
  ELSE IF st.rfc = 3 THEN
       LET acq == ~st.inited /\ backend = "idnkit" IN
       [st EXCEPT !.utf8 = TRUE, !.ucb = RFC6531, !.inited = TRUE,
                  !.ctx = IF acq THEN @ + 1 ELSE @,
                  !.confirmed = RFC6531, !.obs = <<"setup", 0>>]
  ELSE \* invalid value: nothing is confirmed, the condition is recorded for eav_errstr
       [st EXCEPT !.errcode = E_INVALID_RFC, !.obs = <<"setup", E_INVALID_RFC>>]

(* outcome of one validation as a function of (mode, tld, allow, address, converter answer): C13's F *)
OutcomeOf(r, allow) ==
  IF r.rc = 0 THEN [ret |-> 1, err |-> 0, msg |-> NOMSG, res |-> r]
  ELSE IF r.rc < 0 THEN [ret |-> 0, err |-> 0 - r.rc, msg |-> IF r.rc = 0 - E_IDN_ERROR THEN r.idn ELSE NOMSG, res |-> r]
  ELSE IF ClassBit(r.rc) \in allow THEN [ret |-> 1, err |-> 0, msg |-> NOMSG, res |-> r]
  ELSE [ret |-> 0, err |-> ClassErr(r.rc), msg |-> NOMSG, res |-> r]
Outcome(o, mode, tld, allow, conv, a) == OutcomeOf(EmailM(o, mode, tld, conv, a), allow)

(* eav_is_email, in the order of the code; R(mode, tld) is what the per-mode function returns for the  *)
(* address (and converter answer) of this call                                                          *)
EavIsEmailR(st0, R(_, _)) ==
  LET st   == Read(st0, {"idnmsg", "res", "utf8", "tld", "allow"} \cup (IF st0.utf8 THEN {"ucb"} ELSE {"acb"}))
      mode == IF st.utf8 THEN st.ucb ELSE st.acb
      out  == OutcomeOf(R(mode, st.tld), st.allow)
      live1 == IF st.res # NORES THEN st.live - 1 ELSE st.live          \* eav_result_free (eav->result)
  IN [st EXCEPT !.idnmsg = out.msg, !.res = out.res, !.errcode = out.err, !.live = live1 + 1,
                !.bad = IF st.res # NORES /\ st.live = 0 THEN "result freed twice" ELSE @,
                !.obs = <<"is_email", out.ret>>]
EavIsEmail(o, st0, a, conv) ==
  LET R(mode, tld) == EmailM(o, mode, tld, conv, a) IN EavIsEmailR(st0, R)
OldEavIsEmail(o, st0, a, conv) ==
  LET st   == Read(st0, {"idnmsg", "res", "utf8", "tld", "allow"} \cup (IF st0.utf8 THEN {"ucb"} ELSE {"acb"}))
      mode == IF st.utf8 THEN st.ucb ELSE st.acb
      out  == Outcome(o, mode, st.tld, st.allow, conv, a)
      live1 == IF st.res # NORES THEN st.live - 1 ELSE st.live          \* eav_result_free (eav->result)
  IN [st EXCEPT !.idnmsg = out.msg, !.res = out.res, !.errcode = out.err, !.live = live1 + 1,
                !.bad = IF st.res # NORES /\ st.live = 0 THEN "result freed twice" ELSE @,
                !.obs = <<"is_email", out.ret>>]

EavErrstr(st0) ==
  LET st == Read(st0, {"errcode"} \cup (IF st0.errcode = E_IDN_ERROR THEN {"idnmsg"} ELSE {})) IN
  [st EXCEPT !.obs = <<"errstr", st.errcode, IF st.errcode = E_IDN_ERROR THEN st.idnmsg ELSE NOMSG>>]

EavFree(backend, st0) ==
  LET st  == Read(st0, {"res", "inited"})
      rel == st.inited /\ backend = "idnkit" IN
  [st EXCEPT !.life = "freed", !.res = NORES,
             !.live = IF st.res # NORES THEN @ - 1 ELSE @,
             !.ctx = IF rel THEN @ - 1 ELSE @,
             !.bad = IF (st.res # NORES /\ st.live = 0) \/ (rel /\ st.ctx = 0) THEN "double release in eav_free" ELSE @,
             !.obs = <<"free">>]

(* which calls are legal (the documented protocol): init first, setup before the first validation,   *)
(* nothing but init after free                                                                        *)
CanUse(st)      == st.life = "live"
CanValidate(st) == st.life = "live" /\ st.confirmed # 0

----------------------------------------------------------------------------
(* object-level invariants *)
\* the rules applied are those of the mode confirmed by the last successful eav_setup
DispatchOk(st) == (st.life = "live" /\ st.confirmed # 0) =>
                     (IF st.utf8 THEN st.ucb ELSE st.acb) = st.confirmed
HeapOk(st)     == st.live \in {0, 1} /\ (st.life = "freed" => st.live = 0) /\ ((st.res # NORES) = (st.live = 1))
CtxOk(st)      == st.ctx \in {0, 1} /\ (st.ctx = 1 => st.inited) /\ (st.life = "freed" => st.ctx = 0)
NoMisuse(st)   == st.bad = ""
\* ret = 1 iff errcode = 0; errcode mirrors the result code; IDN message present exactly for IDN errors
DiagOk(st) == (st.life = "live" /\ st.obs[1] = "is_email") =>
                 /\ (st.obs[2] = 1) = (st.errcode = 0)
                 /\ (st.res.rc < 0 => st.errcode = 0 - st.res.rc)
                 /\ (st.res.rc \in 1..9 /\ st.obs[2] = 0 => st.errcode = ClassErr(st.res.rc))
                 /\ (st.errcode = E_IDN_ERROR) = (st.idnmsg # NOMSG)
                 /\ st.res.rc <= 9
=============================================================================
