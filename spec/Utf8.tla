-------------------------------- MODULE Utf8 --------------------------------
(***************************************************************************)
(* Layer P: well-formed UTF-8 exactly as Unicode Table 3-7.                 *)
(* Layer M: the JSON.org "very strict" decoder of src/utf8_decode.c with    *)
(*          its cursor (the_index, the_byte) and its arithmetic.            *)
(***************************************************************************)
EXTENDS Bytes

At(s, i) == IF i \in 1..Len(s) THEN s[i] ELSE 0      \* 0 = the terminator / nothing

IsCont(b) == b \in 128..191

(* P: length of the well-formed character starting at i, 0 if none starts there *)
CharLen(s, i) ==
  LET b == At(s, i)  b1 == At(s, i+1)  b2 == At(s, i+2)  b3 == At(s, i+3) IN
  CASE b \in 1..127 -> 1
    [] b \in 194..223 -> IF IsCont(b1) THEN 2 ELSE 0
    [] b = 224        -> IF b1 \in 160..191 /\ IsCont(b2) THEN 3 ELSE 0
    [] b \in 225..236 -> IF IsCont(b1) /\ IsCont(b2) THEN 3 ELSE 0
    [] b = 237        -> IF b1 \in 128..159 /\ IsCont(b2) THEN 3 ELSE 0
    [] b \in 238..239 -> IF IsCont(b1) /\ IsCont(b2) THEN 3 ELSE 0
    [] b = 240        -> IF b1 \in 144..191 /\ IsCont(b2) /\ IsCont(b3) THEN 4 ELSE 0
    [] b \in 241..243 -> IF IsCont(b1) /\ IsCont(b2) /\ IsCont(b3) THEN 4 ELSE 0
    [] b = 244        -> IF b1 \in 128..143 /\ IsCont(b2) /\ IsCont(b3) THEN 4 ELSE 0
    [] OTHER -> 0

(* state of a left-to-right scan: next position, collapsed sequence (every    *)
(* non-ASCII character replaced by the single symbol 128), ok flag            *)
WfStep(s, st, i) ==
  IF ~st.ok \/ i < st.next THEN st
  ELSE LET n == CharLen(s, i) IN
       IF n = 0 THEN [st EXCEPT !.ok = FALSE]
       ELSE [ok |-> TRUE, next |-> i + n,
             out |-> Append(st.out, IF n = 1 THEN s[i] ELSE 128)]
WfScan(s)     == FoldLeft(LAMBDA st, i : WfStep(s, st, i), [ok |-> TRUE, next |-> 1, out |-> <<>>], Idx(s))
WellFormed(s) == LET r == WfScan(s) IN r.ok /\ r.next = Len(s) + 1
Collapse(s)   == WfScan(s).out
IsAsciiSeq(s) == \A i \in 1..Len(s) : s[i] < 128

(***************************************************************************)
(* M: utf8_decode_next.  idx is the_index (0-based count of consumed bytes) *)
(* Result [cp, idx, at]: cp >= 0 code point, -1 UTF8_END, -2 UTF8_ERROR;      *)
(* at = the_byte (0-based offset of the character just attempted).          *)
(***************************************************************************)
U_END == -1
U_ERR == -2
\* get(): next byte or -1; cont(): payload or -2
GetB(s, idx)  == IF idx >= Len(s) THEN -1 ELSE s[idx + 1]
ContV(s, idx) == LET c == GetB(s, idx) IN IF c \in 128..191 THEN c - 128 ELSE -2
\* get() advances the_index only when a byte is available
Adv(s, idx)   == IF idx >= Len(s) THEN idx ELSE idx + 1

DecodeNext(s, idx, at) ==
  IF idx >= Len(s) THEN [cp |-> U_END, idx |-> idx, at |-> at]
  ELSE
    LET c  == s[idx + 1]
        i1 == idx + 1
    IN
    IF c < 128 THEN [cp |-> c, idx |-> i1, at |-> idx]
    ELSE IF c \in 192..223 THEN
      LET c1 == ContV(s, i1)  i2 == Adv(s, i1)
          r  == (c - 192) * 64 + c1 IN
      [cp |-> IF c1 >= 0 /\ r >= 128 THEN r ELSE U_ERR, idx |-> i2, at |-> idx]
    ELSE IF c \in 224..239 THEN
      LET c1 == ContV(s, i1)  i2 == Adv(s, i1)
          c2 == ContV(s, i2)  i3 == Adv(s, i2)
          r  == (c - 224) * 4096 + c1 * 64 + c2 IN
      [cp |-> IF c1 >= 0 /\ c2 >= 0 /\ r >= 2048 /\ (r < 55296 \/ r > 57343) THEN r ELSE U_ERR,
       idx |-> i3, at |-> idx]
    ELSE IF c \in 240..247 THEN
      LET c1 == ContV(s, i1)  i2 == Adv(s, i1)
          c2 == ContV(s, i2)  i3 == Adv(s, i2)
          c3 == ContV(s, i3)  i4 == Adv(s, i3)
          r  == (c - 240) * 262144 + c1 * 4096 + c2 * 64 + c3 IN
      [cp |-> IF c1 >= 0 /\ c2 >= 0 /\ c3 >= 0 /\ r >= 65536 /\ r <= 1114111 THEN r ELSE U_ERR,
       idx |-> i4, at |-> idx]
    ELSE [cp |-> U_ERR, idx |-> i1, at |-> idx]

(* whole-string decode with M: sequence of code points, or <<-2>> appended on error *)
DecodeAllStep(s, st, i) ==
  IF st.done \/ i - 1 < st.idx THEN st
  ELSE LET d == DecodeNext(s, st.idx, 0) IN
       IF d.cp = U_ERR THEN [st EXCEPT !.done = TRUE, !.ok = FALSE]
       ELSE [st EXCEPT !.idx = d.idx, !.cps = Append(@, d.cp)]
DecodeAll(s) == FoldLeft(LAMBDA st, i : DecodeAllStep(s, st, i),
                         [idx |-> 0, cps |-> <<>>, ok |-> TRUE, done |-> FALSE], Idx(s))
MWellFormed(s) == DecodeAll(s).ok
=============================================================================
