------------------------------- MODULE MC_Ip -------------------------------
(* Address literals: bracket content over {1 0 2 5 a g : .} (Gen = 1); families of octet values,    *)
(* IPv6 shapes, tags, bytes before '[' and after ']' (Gen = 2).  One state = one domain part d.      *)
EXTENDS IpLiteral, Json, TLC
CONSTANTS MaxLen, Gen
VARIABLES c, k

Alphabet == {49, 48, 50, 53, 97, 103, COLON, DOT}
Dec(v) == IF v >= 100 THEN <<48 + (v \div 100), 48 + ((v \div 10) % 10), 48 + (v % 10)>>
          ELSE IF v >= 10 THEN <<48 + (v \div 10), 48 + (v % 10)>> ELSE <<48 + v>>
Br(x) == <<LBR>> \o x \o <<RBR>>
one == <<49>>
\* octet values 0..300 in each position; 1-5 octets; misplaced dots
FamOctet == UNION { { Br(JoinWith(<<Dec(v), one, one, one>>, DOT)), Br(JoinWith(<<one, Dec(v), one, one>>, DOT)),
                      Br(JoinWith(<<one, one, one, Dec(v)>>, DOT)), Br(JoinWith(<<Dec(v), Dec(v), Dec(v), Dec(v)>>, DOT)),
                      Br(JoinWith(<<<<48>> \o Dec(v), one, one, one>>, DOT)), Br(JoinWith(<<one, one, one, <<48, 48>> \o Dec(v)>>, DOT)) }
                    : v \in 0..300 }
            \cup { Br(x) : x \in { <<49,DOT,50,DOT,51>>, <<49,DOT,50,DOT,51,DOT,52,DOT,53>>, <<49,DOT,50,DOT,51,DOT,52,DOT>>,
                                   <<DOT,49,DOT,50,DOT,51,DOT,52>>, <<49,DOT,DOT,50,DOT,51,DOT,52>>, <<49,49,49,49,49,49,49,49>>,
                                   <<48,DOT,48,DOT,48,DOT,48>>, <<48,DOT,49,DOT,50,DOT,51>>, <<49,DOT,50,DOT,51,DOT,52,53,54>> } }
\* IPv6 shapes: a groups, optional "::", b groups, group width w, optional v4 tail, single leading / trailing colon
Grp(w) == Rep(49, w)
Groups(n, w) == JoinWith([i \in 1..n |-> Grp(w)], COLON)
V4T == <<49, DOT, 50, DOT, 51, DOT, 52>>
Shape(a, b, w, dc, tail, lead, trail) ==
  (IF lead THEN <<COLON>> ELSE <<>>) \o
  (IF a > 0 THEN Groups(a, w) ELSE <<>>) \o
  (IF dc THEN <<COLON, COLON>> ELSE IF a > 0 /\ (b > 0 \/ tail) THEN <<COLON>> ELSE <<>>) \o
  (IF b > 0 THEN Groups(b, w) ELSE <<>>) \o
  (IF tail THEN (IF b > 0 THEN <<COLON>> ELSE <<>>) \o V4T ELSE <<>>) \o
  (IF trail THEN <<COLON>> ELSE <<>>)
Shapes == { Shape(a, b, w, dc, tail, lead, trail) :
              a \in 0..8, b \in 0..8, w \in {0, 1, 4, 5}, dc \in BOOLEAN, tail \in BOOLEAN, lead \in BOOLEAN, trail \in BOOLEAN }
Tags == { TagIPv6, <<105, 112, 118, 54, 58>>, <<73, 80, 118, 55, 58>>, <<73, 80, 118, 52, 58>>, <<102, 111, 111, 58>>, <<>>,
          <<73, 80, 118, 54>>, <<73, 80, 118, 54, 58, 58>>,
          \* proper prefixes and extensions of the tag
          <<73, 58>>, <<73, 80, 58>>, <<73, 80, 118, 58>>, <<105, 112, 58>>, <<58>>, <<73, 80, 118, 54, 54, 58>>, <<73, 80, 118, 54, 120, 58>>,
          <<120, 73, 80, 118, 54, 58>>, <<73, 80, 118, 54, SP, 58>> }
FamV6 == { Br(t \o x) : t \in Tags, x \in Shapes }
\* bytes before '[' is not a literal at all (handled by the host-name branch); bytes after ']'
Sfx == { <<>>, <<120>>, <<DOT>>, <<RBR>>, <<COLON>>, <<SP>>, <<RBR, 120>> }
Lits == { <<49,DOT,50,DOT,51,DOT,52>>, TagIPv6 \o <<49,COLON,COLON,50>>, TagIPv6 \o <<COLON,COLON>>, <<49,COLON,COLON,50>>,
          TagIPv6 \o Groups(8, 2), Groups(8, 2), TagIPv6 \o <<COLON,COLON>> \o V4T, TagIPv6 \o V4T, V4T \o <<COLON>> }
FamSfx == { Br(x) \o y : x \in Lits, y \in Sfx } \cup { <<LBR>> \o x : x \in Lits } \cup { <<LBR, RBR>>, <<LBR>>, <<LBR, LBR>> \o V4T \o <<RBR>> }
\* every byte value in each syntactic position of a literal
v4a == <<49, DOT, 50, DOT, 51, DOT, 52>>
HoleIp(t, b) ==
  CASE t = 1 -> Br(<<b>> \o <<DOT, 50, DOT, 51, DOT, 52>>)
    [] t = 2 -> Br(<<49, DOT, b, DOT, 51, DOT, 52>>)
    [] t = 3 -> Br(<<49, DOT, 50, DOT, 51, DOT, b>>)
    [] t = 4 -> Br(v4a \o <<b>>)
    [] t = 5 -> Br(<<49, b>> \o <<DOT, 50, DOT, 51, DOT, 52>>)
    [] t = 6 -> Br(TagIPv6 \o <<b, COLON, COLON, 49>>)
    [] t = 7 -> Br(TagIPv6 \o <<49, COLON, b, COLON, 51, COLON, 52, COLON, 53, COLON, 54, COLON, 55, COLON, 56>>)
    [] t = 8 -> Br(TagIPv6 \o <<COLON, COLON, b>>)
    [] t = 9 -> Br(TagIPv6 \o <<COLON, COLON, 49, DOT, 50, DOT, 51, DOT, b>>)
    [] t = 10 -> Br(<<b, 49, COLON, 50, COLON, 51, COLON, 52, COLON, 53, COLON, 54, COLON, 55, COLON, 56>>)
    [] t = 11 -> Br(<<73, 80, 118, b, COLON, COLON, COLON, 49>>)
    [] t = 12 -> Br(<<73, b, 118, 54, COLON, COLON, COLON, 49>>)
    [] t = 13 -> Br(TagIPv6 \o <<49, 49, 49, b, COLON, COLON>>)
    [] t = 14 -> Br(TagIPv6 \o <<49, COLON, COLON, 49, b>>)
    [] t = 15 -> Br(v4a) \o <<b>>                  \* every byte after the closing bracket
    [] t = 16 -> Br(TagIPv6 \o <<102, 102, 102, 102, COLON, COLON, 49, 57, 50, DOT, 48, DOT, 50, DOT, 49, 50, b>>)
\* ('@' is left out: the vector is the domain part of x@d, and an '@' inside it would move the split)
FamByteIp == { HoleIp(t, b) : t \in 1..16, b \in (1..255) \ {AT} }
\* group / octet spellings away from the obvious boundaries, in the first, a middle and the last position
Spell == { <<48>>, <<57>>, <<97>>, <<102>>, <<65>>, <<70>>, <<102, 102, 102, 102>>, <<70, 70, 70, 70>>, <<48, 48, 48, 48>>, <<49, 50, 51, 52>>,
           <<97, 98, 99, 100>>, <<65, 98, 67, 100>>, <<103>>, <<48, 48, 48, 48, 49>>, <<48, 48, 48, 48, 48>>, <<48, 102, 102, 102, 102>>, <<48, 48, 48, 48, 48, 49>>,
           <<48, 48, 48, 48, 48, 48, 48, 48, 49>>, <<102, 102, 102, 102, 102>>, <<HYPHEN, 49>>, <<57, 57, 57, 57>>, <<48, 102>>, <<49, 48, 48, 48, 48>> }
G7 == <<49, COLON, 50, COLON, 51, COLON, 52, COLON, 53, COLON, 54, COLON, 55>>
FamSpell == UNION { { Br(TagIPv6 \o g \o <<COLON>> \o G7), Br(TagIPv6 \o G7 \o <<COLON>> \o g),
                      Br(TagIPv6 \o <<49, COLON, 50, COLON, 51, COLON>> \o g \o <<COLON, 53, COLON, 54, COLON, 55, COLON, 56>>),
                      Br(TagIPv6 \o g \o <<COLON, COLON>> \o g), Br(TagIPv6 \o <<COLON, COLON>> \o g), Br(g \o <<COLON>> \o G7),
                      Br(TagIPv6 \o <<COLON, COLON>> \o g \o <<COLON>> \o v4a) } : g \in Spell }
            \cup { Br(JoinWith(<<o1, o2, o3, o4>>, DOT)) : o1 \in {<<49>>, <<50, 53, 53>>, <<57>>}, o2 \in {<<48>>, <<56>>, <<50, 53, 54>>},
                                                           o3 \in {<<57, 57>>, <<49, 57, 57>>}, o4 \in {<<48>>, <<50, 53, 53>>, <<50, 54, 48>>, <<51, 48, 48>>} }
            \cup { Br(TagIPv6 \o <<COLON, COLON>> \o JoinWith(<<o1, o2, <<49>>, o4>>, DOT)) : o1 \in {<<49>>, <<50, 53, 53>>, <<48>>}, o2 \in {<<48>>, <<50, 53, 54>>},
                                                           o4 \in {<<48>>, <<50, 53, 53>>, <<50, 53, 54>>} }
\* octets written with many digits (values far beyond 255, around 2^32 and 2^64) in every position
BigOct == { <<52,50,57,52,57,54,55,50,57,55>>, <<52,50,57,52,57,54,55,50,57,54>>, <<52,50,57,52,57,54,55,53,53,49>>, <<52,50,57,52,57,54,55,53,53,50>>,
            <<57,57,57,57,57,57,57,57,57,57,57>>, <<49,56,52,52,54,55,52,52,48,55,51,55,48,57,53,53,49,54,49,55>>, <<50,53,54>>, <<54,53,53,51,55>>,
            <<48,48,48,48,48,48,48,48,48,49>>, <<49,48,48,48>>, <<50,49,52,55,52,56,51,54,52,57>>, <<56,53,56,57,57,51,52,53,57,51>> }
FamBig == UNION { { Br(JoinWith(<<g, <<50>>, <<51>>, <<52>>>>, DOT)), Br(JoinWith(<<<<49>>, g, <<51>>, <<52>>>>, DOT)), Br(JoinWith(<<<<49>>, <<50>>, g, <<52>>>>, DOT)),
                    Br(JoinWith(<<<<49>>, <<50>>, <<51>>, g>>, DOT)), Br(TagIPv6 \o <<COLON, COLON>> \o JoinWith(<<<<49>>, <<50>>, <<51>>, g>>, DOT)),
                    Br(TagIPv6 \o <<COLON, COLON>> \o JoinWith(<<<<49>>, g, <<51>>, <<52>>>>, DOT)) } : g \in BigOct }
\* every RFC 5321 form at maximal width: groups ffff, tail 255.255.255.255 (longest literals), a groups before / b after "::"
F4 == <<102, 102, 102, 102>>
T255 == <<50,53,53,DOT,50,53,53,DOT,50,53,53,DOT,50,53,53>>
GroupsF(n) == JoinWith([i \in 1..n |-> F4], COLON)
ShapeMax(a, b, dc, tail) ==
  (IF a > 0 THEN GroupsF(a) ELSE <<>>) \o
  (IF dc THEN <<COLON, COLON>> ELSE IF a > 0 /\ (b > 0 \/ tail) THEN <<COLON>> ELSE <<>>) \o
  (IF b > 0 THEN GroupsF(b) ELSE <<>>) \o
  (IF tail THEN (IF b > 0 THEN <<COLON>> ELSE <<>>) \o T255 ELSE <<>>)
FamMax == { Br(t \o ShapeMax(a, b, dc, tail)) : t \in {TagIPv6, <<>>}, a \in 0..8, b \in 0..8, dc \in BOOLEAN, tail \in BOOLEAN }
\* dotted quads of every total length 7..28 (octets padded with zeros), alone and as the tail of an IPv6 literal
Pad(v, w) == Rep(48, w) \o Dec(v)
QuadsPadded == { JoinWith(<<Pad(v1, w1), Pad(v2, w2), Pad(v3, w3), Pad(v4, w4)>>, DOT) :
                   v1 \in {1, 192}, v2 \in {0, 168}, v3 \in {100}, v4 \in {4, 100}, w1 \in {0, 1, 2, 5}, w2 \in {0, 1}, w3 \in {0, 2}, w4 \in {0, 1, 3, 7} }
FamPad == UNION { { Br(q), Br(TagIPv6 \o <<COLON, COLON>> \o q), Br(TagIPv6 \o <<COLON, COLON, 102, 102, 102, 102, COLON>> \o q),
                    Br(TagIPv6 \o <<49, COLON, 50, COLON, 51, COLON, 52, COLON, 53, COLON, 54, COLON>> \o q), Br(<<49, COLON, COLON>> \o q) } : q \in QuadsPadded }
Family == FamOctet \cup FamV6 \cup FamSfx \cup FamByteIp \cup FamSpell \cup FamBig \cup FamMax \cup FamPad

D == Br(c)
\* families are spread over 64 buckets (k = -1: bucket chosen) so that all workers share the evaluation
Bucket(x) == IF Len(x) = 0 THEN 0 ELSE (Len(x) * 7 + x[Len(x)] + x[(Len(x) + 1) \div 2]) % 64
Init == c = <<>> /\ k = IF Gen = 1 THEN 0 ELSE -2
Next == \/ Gen = 1 /\ k < MaxLen /\ \E x \in Alphabet : c' = Append(c, x) /\ k' = k + 1
        \/ k = -2 /\ \E b \in 0..63 : c' = <<b>> /\ k' = -1
        \/ k = -1 /\ \E x \in Family : Bucket(x) = c[1] /\ c' = x /\ k' = MaxLen
Live == k >= 0
Dom == IF Gen = 1 THEN Br(c) ELSE c
Inner == IF Gen = 1 THEN c ELSE IF Bracketed(c) THEN Content(c) ELSE c

\* [3, n, domain bytes.., exp, family, mrc, mv4, mv6,  ni, inner bytes.., v4exp, v6exp, m_ipv4, m_ipv6, m_ipaddr]
Vec == LET r == CheckIp(Dom) IN
       <<3, Len(Dom)>> \o Dom \o <<LiteralExp(Dom), LiteralFamily(Dom), r.rc, IF r.v4 THEN 1 ELSE 0, IF r.v6 THEN 1 ELSE 0>>
       \o <<Len(Inner)>> \o Inner \o <<V4Exp(Inner), V6Exp(Inner), Ipv4Rc(Inner, 0), Ipv6Rc(Inner, 0), IpaddrRc(Inner, 0)>>
BareConforms == /\ (V4Exp(Inner) = 1 => Ipv4Rc(Inner, 0) = 1) /\ (V4Exp(Inner) = 0 => Ipv4Rc(Inner, 0) = 0)
                /\ (V6Exp(Inner) = 1 => Ipv6Rc(Inner, 0) = 1) /\ (V6Exp(Inner) = 0 => Ipv6Rc(Inner, 0) = 0)
Inv == Live => (LiteralConforms(Dom) /\ BareConforms /\ PrintT(ToJson(Vec)))
=============================================================================
