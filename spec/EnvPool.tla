------------------------------ MODULE EnvPool ------------------------------
\* PLACEHOLDER - regenerated at check time (pool of addresses with the converter's recorded answers)
Pool == << [a |-> <<97, 64, 120, 46, 99, 111, 109>>, conv |-> [code |-> 0, out |-> <<120, 46, 99, 111, 109>>]] >>
=============================================================================
