------------------------------ MODULE MC_Struct ------------------------------
(* Structural positions and long inputs (C06, C20 corpora).                                               *)
(*  Phase 1: every byte value 1..255 in every structural position of an address (first / last byte,       *)
(*           around '@', '[', ']', '.', '"', after a backslash) - full replay vectors (kind 5).           *)
(*  Phase 2: adversarial shapes of length n (kind 13: executed under the monitors on every entry point;   *)
(*           kind 14: the same at n, 2n, 4n for the instruction-count scaling check).                     *)
EXTENDS Email, Json, TLC
CONSTANTS Tier
VARIABLES ph, x, y

O == DefaultOpts
xcom == <<120, DOT, 99, 111, 109>>
v4 == <<49, DOT, 50, DOT, 51, DOT, 52>>
Hole(t, b) ==
  CASE t = 1 -> <<b>>
    [] t = 2 -> <<b, 97, AT>> \o xcom
    [] t = 3 -> <<97, b, AT>> \o xcom
    [] t = 4 -> <<97, AT, b>> \o xcom
    [] t = 5 -> <<97, AT>> \o xcom \o <<b>>
    [] t = 6 -> <<97, AT, 120, b, DOT, 99, 111, 109>>
    [] t = 7 -> <<97, AT, 120, DOT, b, 99, 111, 109>>
    [] t = 8 -> <<DQ, b, DQ, AT>> \o xcom
    [] t = 9 -> <<DQ, BS, b, DQ, AT>> \o xcom
    [] t = 10 -> <<DQ, 97, b>>
    [] t = 11 -> <<97, AT, LBR, b>> \o v4 \o <<RBR>>
    [] t = 12 -> <<97, AT, LBR>> \o v4 \o <<b, RBR>>
    [] t = 13 -> <<97, AT, LBR>> \o v4 \o <<RBR, b>>
    [] t = 14 -> <<97, AT, LBR>> \o TagIPv6 \o <<b, COLON, 49, RBR>>
    [] t = 15 -> <<97, DOT, b, DOT, 98, AT>> \o xcom
    [] t = 16 -> <<97, AT, 120, DOT, DOT, b>>
    [] t = 17 -> <<97, b, 98, AT, LBR>> \o v4 \o <<RBR>>
    [] t = 18 -> <<DQ, 97, DQ, b, AT>> \o xcom
    [] t = 19 -> <<97, AT, b>>
    [] t = 20 -> <<b, AT, b>>
NT == 20

RepSeq(u, n) == [i \in 1..(n * Len(u)) |-> u[((i - 1) % Len(u)) + 1]]
Shape(k, n) ==
  CASE k = 1 -> Rep(97, n) \o <<AT>> \o xcom
    [] k = 2 -> Rep(DOT, n)
    [] k = 3 -> <<DQ>> \o Rep(BS, n)
    [] k = 4 -> Rep(DQ, n)
    [] k = 5 -> <<97, AT>> \o Rep(97, n)
    [] k = 6 -> <<97, AT>> \o RepSeq(<<97, DOT>>, n \div 2) \o <<99, 111, 109>>
    [] k = 7 -> <<97, AT, LBR>> \o Rep(49, n) \o <<RBR>>
    [] k = 8 -> <<97, AT, LBR>> \o TagIPv6 \o Rep(COLON, n) \o <<RBR>>
    [] k = 9 -> Rep(AT, n)
    [] k = 10 -> <<97, AT>> \o Rep(HYPHEN, n)
    [] k = 11 -> Rep(195, n)
    [] k = 12 -> RepSeq(<<195, 169>>, n \div 2) \o <<AT>> \o xcom
    [] k = 13 -> <<DQ>> \o RepSeq(<<97, CR, LF, SP>>, n \div 4) \o <<DQ, AT>> \o xcom
    [] k = 14 -> RepSeq(<<97, DOT>>, n \div 2) \o <<97, AT>> \o xcom
    [] k = 15 -> <<97, AT, LBR>> \o RepSeq(<<49, DOT>>, n \div 2) \o <<RBR>>
    [] k = 16 -> <<97, AT>> \o RepSeq(<<97, 97, 97, DOT>>, n \div 4) \o S_test
    [] k = 17 -> <<DQ>> \o Rep(SP, n) \o <<DQ, AT>> \o xcom
    [] k = 18 -> <<97, AT, LBR>> \o TagIPv6 \o RepSeq(<<49, COLON>>, n \div 2) \o <<RBR>>
NS == 18
\* Tier 3: only the shapes at one size above the 64 KiB stack the driver is then run under (input-sized stack buffers)
Sizes == IF Tier = 1 THEN {0, 1, 300, 4096} ELSE IF Tier = 3 THEN {70000} ELSE {0, 1, 2, 63, 64, 65, 253, 254, 255, 256, 1024, 16384, 65536}
ScaleN == IF Tier = 1 THEN 4096 ELSE 16384
ScaleShapes == IF Tier = 1 THEN {1, 3, 6, 8, 12, 13, 16} ELSE 1..NS

Init == ph = 0 /\ x = 0 /\ y = 0
Next == \/ ph = 0 /\ Tier # 3 /\ \E t \in 1..NT : \E b \in 1..255 : ph' = 1 /\ x' = t /\ y' = b
        \/ ph = 0 /\ \E k \in 1..NS : \E n \in Sizes : ph' = 2 /\ x' = k /\ y' = n
        \/ ph = 0 /\ Tier # 3 /\ \E k \in ScaleShapes : \E m \in {1, 2, 4} : ph' = 3 /\ x' = k /\ y' = m * ScaleN
Inv == CASE ph = 1 -> EmailAllConform(O, Hole(x, y)) /\ PrintT(ToJson(EmailVec(0, O, Hole(x, y))))
         [] ph = 2 -> PrintT(ToJson(<<13, x, Len(Shape(x, y))>> \o Shape(x, y)))
         [] ph = 3 -> PrintT(ToJson(<<14, x, Len(Shape(x, y))>> \o Shape(x, y)))
         [] OTHER -> TRUE
=============================================================================
