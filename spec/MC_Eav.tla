------------------------------- MODULE MC_Eav -------------------------------
(* The object, model-checked (C13, C15, C18, C19 and the lifecycle part of C06).                          *)
(*  MaxHist = 0: the whole reachable state graph (histories of every length) over the pool of EnvData,     *)
(*               user values RfcVals / Masks, and - with Faults - every converter failure code.            *)
(*  MaxHist > 0: additionally carries the history; every history of exactly MaxHist calls is printed as    *)
(*               a replay vector with the model's observation after each call.                             *)
EXTENDS Eav, EnvData, Json, TLC
CONSTANTS Backend, MaxHist, Faults, Small
VARIABLES st, hist

O == DefaultOpts
RfcVals == IF Small THEN {0, 3, 7} ELSE {0, 1, 2, 3, 4, -1}
AllBits == 0..10
Masks   == IF Small THEN {DefaultAllow, {}} ELSE {DefaultAllow, {2, 3, 4, 5, 6, 7, 8, 9, 10}, {}, {3}}
MaskInt(m) == FoldLeft(LAMBDA a, b : a + (IF b \in m THEN 2 ^ b ELSE 0), 0, [i \in 1..11 |-> i - 1])
NPool == IF Small THEN (IF Len(Pool) < 5 THEN Len(Pool) ELSE 5) ELSE Len(Pool)
\* every libidn2 failure code (idn2.h), an unknown negative one, with 0 = no fault
\* Faults: 0 = none, 1 = three representative codes, 2 = every libidn2 code, 3 = the "mode walk" profile (see NextWalk)
AllFaultCodes == {0, -100, -101, -102, -103, -104, -200, -201, -202, -203, -204, -205, -206, -207, -208,
                  -300, -301, -302, -303, -304, -305, -306, -307, -308, -309, -310, -311, -312, -313, -314, -999}
FaultCodes == IF Faults = 2 THEN AllFaultCodes ELSE IF Faults = 1 THEN {0, -100, -304} ELSE IF Faults = 3 THEN {0, -100, -304} ELSE {0}
ConvOf(i, f) == IF f = 0 THEN Pool[i].conv ELSE [code |-> f, out |-> <<>>]
\* the per-mode results of the pool: literal tables of EnvData (computed by the pre-run MC_Pool)
ModeIdx(m) == CASE m = RFC822 -> 1 [] m = RFC5321 -> 2 [] m = RFC5322 -> 3 [] m = RFC6531 -> 4
MkRes(rc, fl, idn) == [rc |-> rc, v4 |-> fl = 1, v6 |-> fl = 2, dom |-> fl = 4, idn |-> idn]
ResAt(i, m, t, f) ==
  LET k == ((i - 1) * 4 + (ModeIdx(m) - 1)) * 2 + (IF t THEN 1 ELSE 0) + 1
      r == ResSeq[k]  rf == ResFaultSeq[k] IN
  IF f = 0 THEN MkRes(r[1], r[2], r[3])
  ELSE MkRes(rf[1], rf[2], IF rf[1] = 0 - E_IDN_ERROR THEN f ELSE 0)     \* the fault is seen only if the converter is consulted
IsEmailStep(s, i, f) == LET R(m, t) == ResAt(i, m, t, f) IN EavIsEmailR(s, R)

Ext(e) == IF MaxHist = 0 THEN hist ELSE Append(hist, e)
Room == MaxHist = 0 \/ Len(hist) < MaxHist
ObsVec(s) == LET o == s.obs IN
  <<IF Len(o) >= 2 THEN o[2] ELSE -1, IF Len(o) >= 3 THEN o[3] ELSE -1, s.errcode,
    IF s.res = NORES THEN 1000 ELSE s.res.rc, IF s.res = NORES THEN 0 ELSE FlagsOf(s.res), s.confirmed,
    IF s.tld THEN 1 ELSE 0, MaskInt(s.allow)>>
Step(s2, op, a1, a2) == st' = s2 /\ hist' = Ext(<<op, a1, a2>> \o ObsVec(s2))

Init == st = Raw /\ hist = <<>>
DoInit     == Room /\ st.life \in {"raw", "freed"} /\ Step(EavInit(st), 1, 0, 0)
DoSetRfc   == Room /\ CanUse(st) /\ \E v \in RfcVals : Step(SetRfc(st, v), 2, v, 0)
DoSetTld   == Room /\ CanUse(st) /\ \E b \in BOOLEAN : Step(SetTld(st, b), 3, IF b THEN 1 ELSE 0, 0)
DoSetAllow == Room /\ CanUse(st) /\ \E m \in Masks : Step(SetAllow(st, m), 4, MaskInt(m), 0)
DoSetup    == Room /\ CanUse(st) /\ Step(EavSetup(Backend, st), 5, 0, 0)
DoIsEmail  == Room /\ CanValidate(st) /\ \E i \in 1..NPool : \E f \in FaultCodes :
                 Step(IsEmailStep(st, i, f), 6, i, f)
DoErrstr   == Room /\ CanUse(st) /\ Step(EavErrstr(st), 7, 0, 0)
DoFree     == Room /\ CanUse(st) /\ Step(EavFree(Backend, st), 8, 0, 0)
\* one named disjunct per public call, so that TLC's -coverage reports each of them
NextFull == DoInit \/ DoSetRfc \/ DoSetTld \/ DoSetAllow \/ DoSetup \/ DoIsEmail \/ DoErrstr \/ DoFree
(* Faults = 3, the "mode walk" profile: longer histories over fewer choices.  A mode change is one step (rfc := v ; eav_setup),   *)
(* validations use the first two pool addresses (an accepted one and one the converter refuses) with and without an injected    *)
(* failure, and eav_errstr may be asked at any time: what a validation left behind must survive any walk through the modes.       *)
Step2(s1, s2, v) == st' = s2 /\ hist' = IF MaxHist = 0 THEN hist
                                                  ELSE hist \o << <<2, v, 0>> \o ObsVec(s1), <<5, 0, 0>> \o ObsVec(s2) >>
DoSwitch   == (MaxHist = 0 \/ Len(hist) + 2 <= MaxHist) /\ CanUse(st) /\ \E v \in {0, 1, 3, 7} :
                 LET s1 == SetRfc(st, v) IN Step2(s1, EavSetup(Backend, s1), v)
DoIsEmail2 == Room /\ CanValidate(st) /\ \E i \in 1..2 : \E f \in {0, -100, -304} : Step(IsEmailStep(st, i, f), 6, i, f)
DoSetTldOff == Room /\ CanUse(st) /\ st.tld /\ Step(SetTld(st, FALSE), 3, 0, 0)
NextWalk == DoInit \/ DoSwitch \/ DoIsEmail2 \/ DoErrstr \/ DoSetTldOff
Next == IF Faults = 3 THEN NextWalk ELSE NextFull

----------------------------------------------------------------------------
Safe == DispatchOk(st) /\ HeapOk(st) /\ CtxOk(st) /\ NoMisuse(st) /\ DiagOk(st)
\* C19: a converter failure is contained: rejected, IDN error, its code kept for the message, nothing treated as a domain
FaultContained == (st.life = "live" /\ st.obs[1] = "is_email" /\ st.res.idn # 0) =>
                     st.obs[2] = 0 /\ st.errcode = E_IDN_ERROR /\ st.idnmsg = st.res.idn /\ FlagsOf(st.res) = 0
Emit == (MaxHist > 0 /\ Len(hist) = MaxHist) =>
           PrintT(ToJson(<<7, MaxHist>> \o Concat(hist)))
Inv == Safe /\ FaultContained /\ Emit

(* C13 as an action property: the outcome of eav_is_email is a function of (confirmed mode, tld_check,    *)
(* allow_tld, address, converter answer) only - whatever state the object was in                          *)
HistoryIndependent ==
  [][ \A i \in 1..NPool : \A f \in FaultCodes :
        (CanValidate(st) /\ st' = IsEmailStep(st, i, f)) =>
           LET out == OutcomeOf(ResAt(i, st.confirmed, st.tld, f), st.allow) IN
           /\ st'.obs = <<"is_email", out.ret>> /\ st'.errcode = out.err /\ st'.res = out.res /\ st'.idnmsg = out.msg ]_<<st, hist>>
(* eav_errstr describes the most recent eav_is_email (or a failed eav_setup since) *)
ErrstrRecent ==
  [][ (CanUse(st) /\ st' = EavErrstr(st)) => st'.obs = <<"errstr", st.errcode, IF st.errcode = E_IDN_ERROR THEN st.idnmsg ELSE NOMSG>> ]_<<st, hist>>
Spec == Init /\ [][Next]_<<st, hist>>
=============================================================================
