INIT Init
NEXT Next
INVARIANT Ok
CHECK_DEADLOCK FALSE
