------------------------------ MODULE MC_Pool ------------------------------
(* Pre-run for the object model: evaluates the per-mode functions (layer M) once for every address of   *)
(* the pool, every mode and tld_check value, with the recorded converter answer and under a converter    *)
(* fault; tools/props.py turns the printed rows into the literal tables of EnvData (TLC re-evaluates     *)
(* constant function definitions at every use, literal tuples it does not).                              *)
EXTENDS Email, EnvPool, Json, TLC
VARIABLES i, m, t
O == DefaultOpts
Init == i \in 1..Len(Pool) /\ m \in 1..4 /\ t \in 0..1
Next == UNCHANGED <<i, m, t>>
Row == LET r == EmailM(O, ModeSeq4[m], t = 1, Pool[i].conv, Pool[i].a)
           f == EmailM(O, ModeSeq4[m], t = 1, [code |-> -1, out |-> <<>>], Pool[i].a) IN
       <<12, i, m, t, r.rc, FlagsOf(r), r.idn, f.rc, FlagsOf(f)>>
Inv == PrintT(ToJson(Row))
=============================================================================
