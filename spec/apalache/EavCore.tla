------------------------------ MODULE EavCore ------------------------------
(***************************************************************************)
(* The dispatch core of the eav_t object (spec/Eav.tla restricted to the     *)
(* fields that decide which per-mode function eav_is_email calls), for an    *)
(* UNBOUNDED check with Apalache: rfc ranges over all integers, histories    *)
(* are of any length.  DispatchOk - "the rules applied are those of the mode *)
(* confirmed by the last successful eav_setup" (C01, C13) - is shown to be   *)
(* an inductive invariant:                                                   *)
(*    apalache-mc check --init=Init    --inv=IndInv --length=0 EavCore.tla   *)
(*    apalache-mc check --init=IndInit --inv=IndInv --length=1 EavCore.tla   *)
(* TLC checks the same invariant on the full object model for the finite     *)
(* value sets of MC_Eav; the replay of all histories binds it to the code.   *)
(***************************************************************************)
EXTENDS Integers

VARIABLES
  \* @type: Bool;
  live,
  \* @type: Int;
  rfc,
  \* @type: Bool;
  utf8,
  \* @type: Int;
  acb,
  \* @type: Int;
  ucb,
  \* @type: Int;
  confirmed

ModeOf(v) == IF v = 0 THEN 822 ELSE IF v = 1 THEN 5321 ELSE IF v = 2 THEN 5322 ELSE 6531

Init == live = FALSE /\ rfc = 0 /\ utf8 = FALSE /\ acb = 0 /\ ucb = 0 /\ confirmed = 0

\* eav_init (also after eav_free)
DoInit == /\ live' = TRUE /\ rfc' = 3 /\ utf8' = FALSE /\ acb' = 0 /\ ucb' = 0 /\ confirmed' = 0
\* the user writes the public field: any int
SetRfc == /\ live /\ \E v \in Int : rfc' = v
          /\ UNCHANGED <<live, utf8, acb, ucb, confirmed>>
\* eav_setup: the switch of partial/*/eav.c
Setup == /\ live
         /\ \/ /\ rfc \in 0..2
               /\ acb' = ModeOf(rfc) /\ utf8' = FALSE /\ confirmed' = ModeOf(rfc)
               /\ UNCHANGED <<live, rfc, ucb>>
            \/ /\ rfc = 3
               /\ utf8' = TRUE /\ ucb' = 6531 /\ confirmed' = 6531
               /\ UNCHANGED <<live, rfc, acb>>
            \/ /\ rfc \notin 0..3                 \* EEAV_INVALID_RFC: nothing is confirmed, nothing changes
               /\ UNCHANGED <<live, rfc, utf8, acb, ucb, confirmed>>
\* eav_is_email / eav_errstr do not touch the dispatch fields
Use == live /\ UNCHANGED <<live, rfc, utf8, acb, ucb, confirmed>>
DoFree == live /\ live' = FALSE /\ UNCHANGED <<rfc, utf8, acb, ucb, confirmed>>

Next == DoInit \/ SetRfc \/ Setup \/ Use \/ DoFree

Dispatch == IF utf8 THEN ucb ELSE acb
DispatchOk == (live /\ confirmed # 0) => Dispatch = confirmed
\* eav_is_email is only legal after a successful eav_setup: then the callback is never NULL
NoNullCall == (live /\ confirmed # 0) => Dispatch # 0
IndInv == /\ confirmed \in {0, 822, 5321, 5322, 6531}
          /\ DispatchOk
          /\ NoNullCall
\* IndInv as an initial predicate (every variable assigned from its type, then constrained)
IndInit == /\ live \in BOOLEAN /\ rfc \in Int /\ utf8 \in BOOLEAN /\ acb \in Int /\ ucb \in Int
           /\ confirmed \in {0, 822, 5321, 5322, 6531}
           /\ DispatchOk /\ NoNullCall
=============================================================================
