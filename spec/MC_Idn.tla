------------------------------- MODULE MC_Idn -------------------------------
(* C10: internationalised domains.  One state = one UTF-8 domain; vector [17, mustReject, n, bytes..].      *)
(* The A-label spelling is the converter's (environment): the replay driver obtains it from the same        *)
(* converter the library uses and checks the relation  outcome(U) = outcome(A)  in mode 6531 and            *)
(* outcome_ascii(A) = outcome_6531(A); mustReject marks domains that violate UTF-8 well-formedness or        *)
(* IDNA2008 for reasons the spec knows (disallowed symbol, hyphen rules, A-label longer than 63).            *)
(*  Part 1: 1..MaxLabels labels over letters / digits of eight scripts.                                     *)
(*  Part 2: every internationalised TLD of the table behind a label, U-form.                                *)
(*  Part 3: violations.                                                                                      *)
EXTENDS Tld, Utf8, Json, TLC
CONSTANTS Part, MaxLabels
VARIABLES d, k

\* UTF-8 of sample letters: Cyrillic п о, Greek ε λ, Han 中 文, Hangul 한, Arabic ا ل, Hebrew א ב, Devanagari न म, Latin-1 é ü
Cy == {<<208, 191>>, <<208, 190>>}      Gr == {<<206, 181>>, <<206, 187>>}     Han == {<<228, 184, 173>>, <<230, 150, 135>>}
Hg == {<<237, 149, 156>>}               Ar == {<<216, 167>>, <<217, 132>>}     He == {<<215, 144>>, <<215, 145>>}
Dv == {<<224, 164, 168>>, <<224, 164, 174>>}   L1 == {<<195, 169>>, <<195, 188>>}   As == {<<97>>, <<49>>}
Scripts == <<Cy, Gr, Han, Hg, Ar, He, Dv, L1, As>>
\* labels: one or two letters of one script, optionally followed by an ASCII digit (not for RTL scripts: bidi rule)
LabelsOf(S) == {a : a \in S} \cup {a \o b : a \in S, b \in S}
Labels == UNION {LabelsOf(Scripts[i]) : i \in 1..Len(Scripts)} \cup {a \o <<49>> : a \in Cy \cup Gr \cup Han \cup L1}
          \cup {<<97, HYPHEN>> \o a : a \in L1 \cup Cy}
com == <<99, 111, 109>>

Shy == <<194, 173>>
Violations == {
   <<226, 152, 149, DOT>> \o com,                          \* U+2615 HOT BEVERAGE: disallowed
   <<73, 226, 153, 165, 78, 89, DOT, 100, 101>>,           \* I (heart) NY.de
   <<HYPHEN, 208, 191, DOT>> \o com,                       \* leading hyphen
   <<208, 191, HYPHEN, DOT>> \o com,                       \* trailing hyphen
   <<208, 191, 208, 190, HYPHEN, HYPHEN, 208, 191, DOT>> \o com,   \* hyphens in positions 3 and 4
   Concat([i \in 1..60 |-> <<208, 191>>]) \o <<DOT>> \o com,  \* A-label longer than 63
   <<208, DOT>> \o com, <<208, 191, 255, DOT>> \o com, <<237, 160, 128, DOT>> \o com, <<192, 175, DOT>> \o com,   \* ill-formed UTF-8
   <<208, 191, DOT, DOT>> \o com, <<DOT, 208, 191>>,      \* empty labels
   <<208, 191, SP, DOT>> \o com, <<208, 191, USCORE, 208, 191, DOT>> \o com }
   \* names made only of code points the IDNA mapping deletes (soft hyphen, zero-width space, word joiner, variation selector): they
   \* convert to the empty string or to empty labels
   \cup { Shy, Shy \o Shy, <<226, 128, 139>>, <<226, 129, 160>>, <<239, 184, 128>>, Shy \o <<DOT>> \o com, Shy \o <<DOT>> \o Shy }
   \* a valid short name followed by k deleted code points and an invalid tail: the conversion is long, the result short and invalid
   \cup UNION { { <<97, DOT, 99, 111, 109>> \o Concat([i \in 1..kk |-> Shy]) \o tail : tail \in { <<USCORE, 120>>, <<HYPHEN>>, <<DOT, DOT, 98>>, <<33>> } }
                 : kk \in {100, 130, 509, 1030, 2050} }

\* long U-label spellings: 240..300 UTF-8 octets whose A-label form stays well below the 253 limit
Pn(n) == [i \in 1..(2 * n) |-> IF i % 2 = 1 THEN 208 ELSE 191]
rf == <<209, 128, 209, 132>>
LongU == { JoinWith(<<Pn(n), Pn(n), Pn(n), rf>>, DOT) : n \in 36..50 } \cup
         { JoinWith(<<Pn(n), Pn(n), Pn(n), Pn(n), rf>>, DOT) : n \in 28..36 } \cup
         { JoinWith(<<Pn(n), <<97>>, rf>>, DOT) : n \in {56, 57, 58, 59, 60, 62, 64} }
\* label separators other than the ASCII dot (U+3002, U+FF0E, U+FF61 are mapped to '.' by IDNA)
IdeoStop == <<227, 128, 130>>   FullStop == <<239, 188, 142>>   HalfStop == <<239, 189, 161>>
OtherDots == UNION { { <<109, 97, 105, 108>> \o sp \o <<99, 111, 109>>, <<208, 191>> \o sp \o rf, <<120>> \o sp \o <<122, 122, 122, 113>>,
                       <<120, DOT, 121>> \o sp \o <<99, 111, 109>>, <<120>> \o sp \o <<121>> \o sp \o <<111, 114, 103>>, <<120>> \o sp \o S_test }
                     : sp \in {IdeoStop, FullStop, HalfStop} }
\* U-labels to the left of the reserved names (the reserved-name test is made on the converted name, whatever had to be converted)
pochta == <<208, 191, 208, 190, 209, 135, 209, 130, 208, 176>>
UReserved == { JoinWith(<<l, r>>, DOT) : l \in {pochta, <<195, 169>>, pochta \o <<DOT>> \o <<120>>},
                                         r \in {S_test, S_example, S_invalid, S_localhost, S_onion, S_example \o <<DOT>> \o S_com,
                                                 S_example \o <<DOT>> \o S_org, S_example \o <<DOT>> \o S_net, S_example \o <<DOT>> \o <<99, 111>>, <<116, 101, 115, 116, 115>>} }
\* the first and the last code point of every UTF-8 lead byte C2..F4 (first / last well-formed sequence with that lead), doubled, as
\* a label in front of .com: whatever the converter makes of it, both spellings must be judged alike
FirstOf(l) == CASE l \in 194..223 -> <<l, 128>>
                [] l = 224 -> <<l, 160, 128>>   [] l \in 225..239 -> <<l, 128, 128>>
                [] l = 240 -> <<l, 144, 128, 128>>   [] l \in 241..244 -> <<l, 128, 128, 128>>
LastOf(l)  == CASE l \in 194..223 -> <<l, 191>>
                [] l = 237 -> <<l, 159, 191>>   [] l \in (224..239) \ {237} -> <<l, 191, 191>>
                [] l = 244 -> <<l, 143, 191, 191>>   [] l \in 240..243 -> <<l, 191, 191, 191>>
LeadCover == UNION { { c \o c \o <<DOT>> \o com, <<120, DOT>> \o c \o <<97, DOT>> \o com, c \o <<97>> \o c \o <<DOT>> \o rf }
                     : c \in UNION { {FirstOf(l), LastOf(l), FirstOf(l) \o <<>> } : l \in 194..244 } }
Init == d = <<>> /\ k = 0
Next == \/ Part = 1 /\ k < MaxLabels /\ \E l \in Labels : d' = (IF k = 0 THEN l ELSE d \o <<DOT>> \o l) /\ k' = k + 1
        \/ Part = 2 /\ k = 0 /\ \E i \in {j \in 1..NRows : TldU[j] # TldRows[j][1]} :
              \E v \in {1, 2, 3} : k' = 1 /\ d' = CASE v = 1 -> <<120, DOT>> \o TldU[i]
                                                    [] v = 2 -> TldU[i] \o <<DOT>> \o TldU[i]
                                                    [] v = 3 -> <<208, 191, DOT>> \o TldU[i]
        \/ Part = 3 /\ k = 0 /\ \E v \in Violations : d' = v /\ k' = 1
        \/ Part = 2 /\ k = 0 /\ \E v \in LongU \cup OtherDots \cup UReserved \cup LeadCover : d' = v /\ k' = 1
MustReject == Part = 3
Inv == k >= 1 => PrintT(ToJson(<<17, IF MustReject THEN 1 ELSE 0, Len(d)>> \o d))
=============================================================================
