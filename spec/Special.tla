------------------------------ MODULE Special ------------------------------
(***************************************************************************)
(* Reserved domains, RFC 2606 / 6761 / 7686 (C09).                          *)
(*  Layer P: IsReserved(d) as the property states it (whole labels, last    *)
(*           one or last two, case-insensitive).                            *)
(*  Layer M: is_special_domain (src/is_special_domain.c): count the dots,   *)
(*           skip to the last two labels, "example" + com/net/org, then the *)
(*           last label with the length filter 4,5,7,9.                     *)
(***************************************************************************)
EXTENDS Bytes, Codes

S_test      == <<116, 101, 115, 116>>
S_example   == <<101, 120, 97, 109, 112, 108, 101>>
S_invalid   == <<105, 110, 118, 97, 108, 105, 100>>
S_localhost == <<108, 111, 99, 97, 108, 104, 111, 115, 116>>
S_onion     == <<111, 110, 105, 111, 110>>
S_com == <<99, 111, 109>>   S_net == <<110, 101, 116>>   S_org == <<111, 114, 103>>
ReservedTlds == {S_test, S_example, S_invalid, S_localhost, S_onion}
ExampleSlds  == {S_com, S_net, S_org}

(* P *)
IsReserved(d) ==
  LET ls == Split(d, DOT)  n == Len(ls)  last == LowerS(ls[n]) IN
  \/ last \in ReservedTlds
  \/ (n >= 2 /\ LowerS(ls[n-1]) = S_example /\ last \in ExampleSlds)

(* M: YES = 1, NO = 0 *)
SpecialRc(d) ==
  LET n == Len(d)  dots == Cardinality(Pos(d, DOT)) IN
  IF n = 0 THEN 0
  ELSE IF dots = 0 THEN
       (IF n < 4 \/ n > 9 \/ n = 6 \/ n = 8 THEN 0 ELSE IF LowerS(d) \in ReservedTlds THEN 1 ELSE 0)
  ELSE LET count  == IF d[n] = DOT THEN dots - 1 ELSE dots      \* don't take the root into account
           ls     == Split(d, DOT)
           skip   == IF count >= 2 THEN count - 1 ELSE 0        \* labels skipped by the while loop
           first  == ls[skip + 1]
           second == ls[skip + 2]
       IN IF Len(first) = 7 /\ LowerS(first) = S_example /\ Len(second) = 3 /\ LowerS(second) \in ExampleSlds THEN 1
          ELSE IF Len(second) \in {4, 5, 7, 9} /\ LowerS(second) \in ReservedTlds THEN 1
          ELSE 0
=============================================================================
