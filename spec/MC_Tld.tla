------------------------------- MODULE MC_Tld -------------------------------
(* TLD classification and reserved domains (C07, C09, C10): one state = one domain d, replayed as      *)
(* the address  a@d  in all four modes with TLD checking off and on.                                    *)
(*  Part = 1: every row of the table in three case patterns behind 1..4 labels, every near miss of the *)
(*            rows selected by RowSel (proper prefixes, one-character extensions, single               *)
(*            substitutions, listed label first with an unlisted last label), IDN rows in U-label form  *)
(*  Part = 2: reserved suffixes behind 0..3 labels of every length 1..63, case patterns, one-edit       *)
(*            neighbours of the reserved names                                                          *)
EXTENDS Email, Json, TLC
CONSTANTS Part, RowMod, RowRem
VARIABLES d, k

O == DefaultOpts
x == <<120>>
zq == <<122, 122, 122, 113>>
UpperB(b) == IF IsLowerc(b) THEN b - 32 ELSE b
UpperS(s) == [i \in 1..Len(s) |-> UpperB(s[i])]
MixedS(s) == [i \in 1..Len(s) |-> IF i % 2 = 1 THEN UpperB(s[i]) ELSE s[i]]
Dom(ls) == JoinWith(ls, DOT)
Subst(l, i) == [l EXCEPT ![i] = IF @ = 113 THEN 122 ELSE 113]

RowVariants(i) ==
  LET l == TldRows[i][1]  u == TldU[i] IN
  { Dom(<<x, l>>), Dom(<<x, UpperS(l)>>), Dom(<<x, MixedS(l)>>), Dom(<<x, x, l>>), Dom(<<x, x, x, l>>), Dom(<<x, x, x, x, l>>),
    Dom(<<l, l>>), Dom(<<x, u>>), Dom(<<u, u>>), l }
NearMisses(i) ==
  LET l == TldRows[i][1] IN
  { Dom(<<x, SubSeq(l, 1, j)>>) : j \in 1..(Len(l) - 1) } \cup
  { Dom(<<x, SubSeq(l, j, Len(l))>>) : j \in 2..Len(l) } \cup
  { Dom(<<x, Subst(l, j)>>) : j \in 1..Len(l) } \cup
  { Dom(<<x, l \o <<97>>>>), Dom(<<x, <<97>> \o l>>), Dom(<<l, zq>>), Dom(<<l, x, zq>>), Dom(<<x \o l, zq>>),
    Dom(<<x, l \o <<HYPHEN, 97>>>>), Dom(<<x, l, x>>) \o <<DOT>> }
Selected(i) == i % RowMod = RowRem
RowFam(i) == RowVariants(i) \cup (IF Selected(i) THEN NearMisses(i) ELSE {})
Unlisted == { Dom(<<x, zq>>), zq, Dom(<<x, <<113, 113>>>>), Dom(<<x, Rep(113, 63)>>), Dom(<<x, <<49, 50, 51>>>>) }

\* reserved names behind labels of every length
Lb(n) == Rep(97, n)
XnP1ai == <<120, 110, HYPHEN, HYPHEN, 112, 49, 97, 105>>
Res2 == { Dom(<<S_example, t>>) : t \in ExampleSlds }
ResAll == ReservedTlds \cup Res2
CaseV(s) == {s, UpperS(s), MixedS(s)}
Edit1(s) == { Subst(s, j) : j \in 1..Len(s) } \cup { SubSeq(s, 1, j - 1) \o SubSeq(s, j + 1, Len(s)) : j \in 1..Len(s) }
            \cup { SubSeq(s, 1, j) \o <<97>> \o SubSeq(s, j + 1, Len(s)) : j \in 0..Len(s) }
AfterTlds == { <<100, 101>>, S_com, <<109, 117, 115, 101, 117, 109>>, <<105, 110, 102, 111>>, <<116, 101, 99, 104, 110, 111, 108, 111, 103, 121>>,
               <<106, 111, 98, 115>>, <<99, 111, 46, 117, 107>> }
ComLike == { <<99, 111, 109, 112, 97, 110, 121>>, <<110, 101, 116, 119, 111, 114, 107>>, <<111, 114, 103, 97, 110, 105, 99>>, <<110, 101, 116, 102, 108, 105, 120>>,
             <<99, 111, 109, 120>>, <<99, 111>>, <<111, 114, 103, 46, 117, 107>>, <<99, 111, 109, 109, 117, 110, 105, 116, 121>>, <<110, 101>> }
FamRes ==
  UNION { CaseV(r) : r \in ResAll } \cup
  UNION { UNION { { Dom(<<Lb(n), r>>), Dom(<<Lb(3), Lb(n), r>>), Dom(<<Lb(n), Lb(7), r>>), Dom(<<Lb(n), Lb(8), Lb(1), r>>),
                    Dom(<<Lb(7), Lb(n), Lb(7), r>>) } : n \in 1..63 } : r \in ResAll } \cup
  UNION { { Dom(<<S_example, r>>), Dom(<<Lb(7), r>>), Dom(<<S_example, S_example, r>>), Dom(<<r, S_com>>), Dom(<<r, r>>),
            Dom(<<x, r>>) \o <<DOT>>, r \o <<DOT>> } : r \in ResAll } \cup
  UNION { { e, Dom(<<x, e>>), Dom(<<Lb(7), e>>) } : e \in UNION { Edit1(r) : r \in ResAll } } \cup
  UNION { UNION { { SubSeq(r, 1, j), Dom(<<x, SubSeq(r, 1, j)>>), Dom(<<x, SubSeq(r, j, Len(r))>>) } : j \in 2..Len(r) } : r \in ReservedTlds } \cup
  \* an A-label (or a label that merely looks like one) in front of a reserved name; syntactically invalid domains that end
  \* in a reserved name (they are invalid host names, not special domains)
  UNION { { Dom(<<XnP1ai, r>>), Dom(<<XnP1ai, x, r>>), Dom(<<x, XnP1ai, r>>), Dom(<<<<120, 110, HYPHEN, HYPHEN, 97>>, r>>),
            Dom(<<<<97, USCORE, 98>>, r>>), Dom(<<<<120, 33, 121>>, r>>), <<120, DOT, DOT>> \o r, <<DOT>> \o r, Dom(<<<<HYPHEN, 97>>, r>>),
            Dom(<<<<97, HYPHEN>>, r>>), Dom(<<x, <<97, SP, 98>>, r>>), Dom(<<Lb(64), r>>), Dom(<<<<49, 50, 51>>, r>>) } : r \in ResAll } \cup
  \* a reserved word extended by one to five characters (in front or behind), alone and as last label
  UNION { UNION { { r \o Rep(120, n), Rep(120, n) \o r, Dom(<<x, r \o Rep(120, n)>>), Dom(<<x, Rep(120, n) \o r>>), Dom(<<S_example, S_com \o Rep(120, n)>>) }
                  : n \in 1..5 } : r \in ReservedTlds } \cup
  \* labels of every length AFTER a reserved word (the reserved word is then not the last label)
  UNION { UNION { { Dom(<<r, Lb(n)>>), Dom(<<x, r, Lb(n)>>) } : n \in 1..63 } : r \in ReservedTlds } \cup
  \* listed TLDs of every length class after a reserved word, and TLDs that merely begin with com / net / org after "example"
  UNION { UNION { { Dom(<<r, t>>), Dom(<<x, UpperS(r), t>>), Dom(<<r \o <<115>>, t>>) } : t \in AfterTlds } : r \in ReservedTlds } \cup
  { Dom(<<S_example, t>>) : t \in ComLike } \cup { Dom(<<x, S_example, t>>) : t \in ComLike } \cup
  \* a reserved word glued to other label characters (hyphen, digit, underscore, letter) is an ordinary label
  UNION { UNION { { g \o r, r \o g, Dom(<<x, g \o r>>), Dom(<<x, r \o g>>), Dom(<<x, x, g \o r>>), Dom(<<g \o r, S_com>>), Dom(<<x, r \o g, S_org>>),
                    Dom(<<g \o S_example, S_com>>), Dom(<<x, g \o S_example, S_net>>), Dom(<<S_example \o g, S_org>>), Dom(<<S_example, g \o S_com>>) }
                  : g \in { <<120, HYPHEN>>, <<HYPHEN, 120>>, <<109, 121, HYPHEN>>, <<49>>, <<120, 49, HYPHEN>>, <<HYPHEN>> } } : r \in ReservedTlds } \cup
  { Dom(<<S_example, <<99, 111>>>>), Dom(<<x \o S_example, S_com>>), Dom(<<S_example, S_com \o <<109>>>>), Dom(<<x, S_test \o <<115>>>>),
    Dom(<<S_example \o <<97>>>>), Dom(<<S_example, S_com, x>>), Dom(<<S_com, S_example>>) }

Bucket(y) == IF Len(y) = 0 THEN 0 ELSE (Len(y) * 7 + y[Len(y)] + y[(Len(y) + 1) \div 2]) % 64
Init == d = <<>> /\ k = -2
Next == \/ k = -2 /\ \E b \in 0..63 : d' = <<b>> /\ k' = -1
        \/ k = -1 /\ Part = 1 /\ \E i \in {j \in 1..NRows : j % 64 = d[1]} : \E y \in RowFam(i) : d' = y /\ k' = 0
        \/ k = -1 /\ Part = 1 /\ d[1] = 0 /\ \E y \in Unlisted : d' = y /\ k' = 0
        \/ k = -1 /\ Part = 2 /\ \E y \in FamRes : Bucket(y) = d[1] /\ d' = y /\ k' = 0
\* single-label domains get a dotted local part: the FQDN test must look at the domain only
Addr == IF Has(d, DOT) THEN <<97, AT>> \o d ELSE <<97, DOT, 98, AT>> \o d
\* the reserved-name machine agrees with the property on every domain of the families (valid host names without root dot)
SpecialAgrees == (IsHostname(O, d) /\ ~HasRoot(d)) => ((SpecialRc(d) = 1) = IsReserved(d))
Inv == k = 0 => (EmailAllConform(O, Addr) /\ SpecialAgrees /\ PrintT(ToJson(EmailVec(0, O, Addr))))
TableOk == TableWellFormed
=============================================================================
