------------------------------ MODULE Hostname ------------------------------
(***************************************************************************)
(* Host-name domains (C04).                                                 *)
(*  Layer P: IsHostname(o, d) as the property states it: LDH labels of      *)
(*           1..63, single dots, optional single root dot, <= 253 without    *)
(*           the root dot, not solely digits and dots.                      *)
(*  Layer M: is_ascii_domain (src/is_ascii_domain.c, from Postfix): length   *)
(*           pre-checks, root-dot strip, one loop with label_length and      *)
(*           non_numeric.                                                    *)
(***************************************************************************)
EXTENDS Bytes, Codes, Utf8

----------------------------------------------------------------------------
(* Layer P *)
Body(d)        == IF Len(d) >= 2 /\ d[Len(d)] = DOT THEN SubSeq(d, 1, Len(d) - 1) ELSE d
LabelChar(o, b) == IsAlnum(b) \/ b = HYPHEN \/ (o.us /\ b = USCORE)
LabelOK(o, l)  == /\ Len(l) \in 1..63
                  /\ \A i \in 1..Len(l) : LabelChar(o, l[i])
                  /\ l[1] # HYPHEN /\ l[Len(l)] # HYPHEN
Labels(d)      == Split(Body(d), DOT)
IsHostname(o, d) ==
  /\ Len(d) >= 1
  /\ Len(Body(d)) <= 253
  /\ LET ls == Labels(d) IN \A j \in 1..Len(ls) : LabelOK(o, ls[j])
  /\ ~(\A i \in 1..Len(Body(d)) : IsDigit(Body(d)[i]) \/ Body(d)[i] = DOT)
HostExp(o, d) == IF IsHostname(o, d) THEN 1 ELSE 0

(* C15: truth of each domain reason, for the string handed to the validator *)
HTruth(o, code, d) ==
  LET b == Body(d)  ls == Labels(d) IN
  CASE code = E_DOMAIN_EMPTY               -> Len(d) = 0
    [] code = E_DOMAIN_LABEL_TOO_LONG      -> (\E j \in 1..Len(ls) : Len(ls[j]) > 63)
    [] code = E_DOMAIN_MISPLACED_HYPHEN    -> (\E j \in 1..Len(ls) : Len(ls[j]) >= 1 /\ (ls[j][1] = HYPHEN \/ ls[j][Len(ls[j])] = HYPHEN))
    [] code = E_DOMAIN_MISPLACED_DELIMITER -> (\E j \in 1..Len(ls) : Len(ls[j]) = 0)
    [] code = E_DOMAIN_INVALID_CHAR        -> (\E i \in 1..Len(d) : ~LabelChar(o, d[i]) /\ d[i] # DOT)
    [] code = E_DOMAIN_TOO_LONG            -> Len(b) > 253
    [] code = E_DOMAIN_NUMERIC             -> Len(d) >= 1 /\ (\A i \in 1..Len(b) : IsDigit(b[i]) \/ b[i] = DOT)
    [] code = E_DOMAIN_NOT_FQDN            -> ~Has(b, DOT)
    [] OTHER -> FALSE
HTruthFull(o, code, d) == HTruth(o, code, d) /\ (code \in 17..22 => ~IsHostname(o, d))

----------------------------------------------------------------------------
(* Layer M *)
HRUN == 1
HInit == [ll |-> 0, nn |-> FALSE, rc |-> HRUN]
HFail(st, code) == [st EXCEPT !.rc = 0 - code]

(* one iteration; d is the whole string (cp[1] may look at the stripped root dot or the terminator) *)
HStep(o, d, st, i) ==
  IF st.rc # HRUN THEN st
  ELSE LET ch == d[i] IN
    IF IsAlnum(ch) \/ (o.us /\ ch = USCORE) THEN
       IF st.ll + 1 > 63 THEN HFail(st, E_DOMAIN_LABEL_TOO_LONG)
       ELSE [st EXCEPT !.ll = @ + 1, !.nn = @ \/ ~IsDigit(ch)]
    ELSE IF ch = DOT THEN
       IF st.ll = 0 THEN HFail(st, E_DOMAIN_MISPLACED_DELIMITER) ELSE [st EXCEPT !.ll = 0]
    ELSE IF ch = HYPHEN THEN
       IF st.ll + 1 = 1 \/ At(d, i + 1) = 0 \/ At(d, i + 1) = DOT
       THEN HFail([st EXCEPT !.nn = TRUE, !.ll = @ + 1], E_DOMAIN_MISPLACED_HYPHEN)
       ELSE [st EXCEPT !.nn = TRUE, !.ll = @ + 1]
    ELSE HFail(st, E_DOMAIN_INVALID_CHAR)

HostRc(o, d) ==
  LET n == Len(d) IN
  IF n = 0 THEN 0 - E_DOMAIN_EMPTY
  ELSE IF n >= 255 \/ (n = 254 /\ d[n] # DOT) THEN 0 - E_DOMAIN_TOO_LONG
  ELSE LET e  == IF n >= 2 /\ d[n] = DOT THEN n - 1 ELSE n          \* end--
           st == FoldLeft(LAMBDA a, i : HStep(o, d, a, i), HInit, [i \in 1..e |-> i]) IN
       IF st.rc # HRUN THEN st.rc
       ELSE IF st.ll = 0 THEN 0 - E_DOMAIN_MISPLACED_DELIMITER       \* empty last label ("a..")
       ELSE IF ~st.nn THEN 0 - E_DOMAIN_NUMERIC
       ELSE 0

HostConforms(o, d) ==
  LET rc == HostRc(o, d) IN
  /\ (rc = 0) = IsHostname(o, d)
  /\ (rc < 0 => HTruthFull(o, 0 - rc, d))
=============================================================================
