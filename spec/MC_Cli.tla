------------------------------- MODULE MC_Cli -------------------------------
(* Files for the eav tool: every sequence of at most MaxLines lines, each a line shape with a terminator   *)
(* (LF, CR LF, or none on the last line).  Kind 21 vectors define the shapes (raw bytes and, per           *)
(* terminator, whether the line is a comment, the address handed to the library and the pinned echo);     *)
(* kind 20 vectors are the files.                                                                          *)
EXTENDS Cli, Json, TLC
CONSTANTS MaxLines, Tier
VARIABLES f, k

T(str) == str
xcom == <<97, AT, 120, DOT, 99, 111, 109>>
Long(n) == Rep(97, n - 6) \o <<AT, 120, DOT, 99, 111, 109>>
ShapesBase == <<
  <<>>, <<SP>>, <<HT>>, <<HASH, 99>>, <<SP, HASH, 99>>, xcom, <<97, AT, 120>>, xcom \o <<SP>>, xcom \o <<HT>>, <<SP>> \o xcom,
  xcom \o <<SP, SP>>, <<97, CR, 98>> \o xcom, <<255>> \o xcom, <<97, 255>> \o xcom, <<97, 1>> \o xcom, <<195, 169>> \o xcom,
  <<97, AT, 208, 191, 208, 190, 209, 135, 209, 130, 208, 176, DOT, 209, 128, 209, 132>>, xcom \o <<CR>>, <<97, 0, 98>> \o xcom,
  <<SP, SP>>, <<97, 195>>, <<195>>, <<97, 98, 255>>, <<DEL>>, <<1, 2, 3, 4, 5, 6, 7, 8, 9, 11, 12, 14, 15, 16>> \o xcom,
  <<240, 159, 152, 128>> \o xcom, <<SP, HT>>, <<HASH>>, <<0>>, <<97, 255, 255>>, <<195, 169, 255, 97>>,
  \* ill-formed UTF-8 of every kind inside an otherwise valid address (the tool links its own copy of the decoder)
  <<97, 237, 176, 128>> \o xcom, <<97, 237, 160, 128>> \o xcom, <<97, 192, 175>> \o xcom, <<97, 224, 128, 128>> \o xcom,
  <<97, 244, 144, 128, 128>> \o xcom, <<97, 240, 128, 128, 128>> \o xcom, <<97, 128>> \o xcom, <<97, 195, AT, 120, DOT, 99, 111, 109>>,
  <<97, 237, 159, 191>> \o xcom, <<97, 238, 128, 128>> \o xcom, <<97, 224, 160, 128>> \o xcom, <<97, 244, 143, 191, 191>> \o xcom,
  <<DQ, 237, 176, 128, DQ>> \o xcom, <<97, AT, 120, DOT, 237, 176, 128>>,
  \* well-formed characters of every length class and of special standing (NBSP, soft hyphen, U+07FF/U+0800, BOM, U+FFFD,
  \* zero-width space, U+10000, U+10FFFF, a C1 control): echoed unchanged unless they are control characters
  <<97, 194, 160>> \o xcom, xcom \o <<194, 160>>, <<97, 194, 161>> \o xcom, <<97, 194, 173>> \o xcom, <<97, 223, 191>> \o xcom,
  <<97, 224, 160, 128>> \o xcom, <<239, 187, 191>> \o xcom, <<97, 239, 191, 189>> \o xcom, <<97, 226, 128, 139>> \o xcom,
  <<97, 240, 144, 128, 128>> \o xcom, <<97, 244, 143, 191, 191>> \o xcom, <<97, 194, 128>> \o xcom, <<97, 194, 159>> \o xcom,
  <<97, 224, 184, 151, 224, 185, 132>> \o xcom, <<97, 237, 159, 191, 238, 128, 128>> \o xcom,
  \* '%' is an ordinary atom character: the echo is data, never a format
  <<53, 48, 37, 111, 102, 102>> \o xcom, <<97, 37, 115>> \o xcom, <<97, 37, 100, 37, 110>> \o xcom, <<97, 37, 37>> \o xcom,
  <<97, 37>> \o xcom, xcom \o <<37>>, <<37, 115, 37, 115, 37, 115, 37, 115>>, <<97, 37, 49, 48, 48, 48, 48, 100>> \o xcom,
  <<97, 92, 110>> \o xcom >>
RepLong(n) == [i \in 1..(2 * n) |-> IF i % 2 = 1 THEN 195 ELSE 169] \o xcom
\* Long(Huge): with the 256 KiB stack the tool is run under, a line no per-line stack buffer can hold
Huge == 100000
ShapesLong == << Long(2047), Long(2048), Long(2049), Long(8192), Rep(1, 600) \o xcom, Long(Huge), Rep(255, 3000), Long(2046) \o <<255>>,
                 RepLong(1500) >>
Shapes == IF Tier >= 2 THEN ShapesBase \o ShapesLong ELSE ShapesBase \o SubSeq(ShapesLong, 1, 6)
NSx == Len(Shapes)
\* shapes of the files given together on one command line (lengths and kinds differ: scratch state carried from file to file)
MultiShapes == {i \in 1..NSx : Shapes[i] \in {<<>>, xcom, <<97, AT, 120>>, <<HASH, 99>>, <<195, 169>> \o xcom, <<97, 1>> \o xcom,
                                               Long(2049), <<97, 255>> \o xcom, <<SP, SP>>}}
NS == Len(Shapes)
Term(t) == CASE t = 1 -> <<LF>> [] t = 2 -> <<CR, LF>> [] t = 3 -> <<>>

\* [21, idx, nraw, raw.., then for term 1..3: comment, ntrim, trim.., pinned, necho, echo..]
ShapeVec(i) ==
  LET one(t) == LET raw == Shapes[i] \o Term(t)  a == Address(raw) IN
                <<IF Commented(raw) THEN 1 ELSE 0, Len(a)>> \o a \o
                (IF EchoPinned(a) THEN <<1, Len(EchoOf(a))>> \o EchoOf(a) ELSE <<0, 0>>)
  IN <<21, i, Len(Shapes[i])>> \o Shapes[i] \o one(1) \o one(2) \o one(3)

\* f = sequence of <<shape, term>>; term 3 (no terminator) only on the last line
Init == f = <<>> /\ k = 0
Next == \/ k = 0 /\ \E i \in 1..NS : f' = <<i>> /\ k' = -1               \* shape definition states
        \/ k >= 0 /\ k < MaxLines /\ (IF k = 0 THEN TRUE ELSE f[Len(f)][2] # 3)
           /\ \E i \in 1..NS : \E t \in 1..3 : f' = Append(f, <<i, t>>) /\ k' = k + 1
        \* command lines of two and three one-line files
        \/ k = 0 /\ \E i \in MultiShapes, j \in MultiShapes : \E t, u \in {1, 3} : f' = << <<i, t>>, <<j, u>> >> /\ k' = -2
        \/ k = -2 /\ Len(f) = 2 /\ f[1][2] = 1 /\ f[2][2] = 1 /\ \E i \in MultiShapes : f' = Append(f, <<i, 1>>) /\ k' = -2
\* [24, nfiles, processing order.., then per file: nlines, (shape, term)..]
InvVec == <<24, Len(f)>> \o ProcessingOrder(Len(f)) \o Concat([j \in 1..Len(f) |-> <<1, f[j][1], f[j][2]>>])
FileVec == <<20, Len(f)>> \o Concat(f)
\* the line structure the spec assigns to the concatenated bytes is the one getline produces
FileBytes == Concat([j \in 1..Len(f) |-> Shapes[f[j][1]] \o Term(f[j][2])])
Reparse == k > 0 /\ Len(FileBytes) < 200 =>
             LET ls == LinesOf(FileBytes) IN
             \* a shape containing LF (none here) would split differently; an empty unterminated last line vanishes
             Len(ls) = Len(f) - (IF f[Len(f)][2] = 3 /\ Shapes[f[Len(f)][1]] = <<>> THEN 1 ELSE 0)
Inv == CASE k = -1 -> PrintT(ToJson(ShapeVec(f[1])))
         [] k > 0 -> Reparse /\ PrintT(ToJson(FileVec))
         [] k = -2 -> PrintT(ToJson(InvVec))
         [] OTHER -> TRUE
=============================================================================
