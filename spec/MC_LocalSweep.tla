--------------------------- MODULE MC_LocalSweep ---------------------------
(* Per-byte sweeps (C02, C03): every byte value 1..255 in every state of the local-part scanners.         *)
(* Part 1: access string (reaching each scanner state) . byte . distinguishing suffix.                     *)
(* Part 2: UTF-8 candidates in atom, quoted and escaped position: every 2-byte sequence, and for 3- and    *)
(*         4-byte sequences every lead byte x second byte over the boundary values (Full = TRUE: all       *)
(*         second and third bytes) x continuation samples.                                                 *)
EXTENDS LocalPart, Json, TLC
CONSTANTS Part, Full, OptBits, EmitCli
VARIABLES s, k

O == [rfc20 |-> (OptBits % 2) = 1, f5322 |-> ((OptBits \div 2) % 2) = 1, us |-> ((OptBits \div 4) % 2) = 1]
a == 97
Access == << <<>>, <<a>>, <<a, DOT>>, <<DQ>>, <<DQ, a>>, <<DQ, BS>>, <<DQ, a, DQ>>, <<DQ, a, DQ, DOT>>, <<DQ, a, CR>>, <<DQ, a, CR, LF>>,
             <<DQ, SP>>, <<DQ, a, SP>>, <<DQ, BS, DQ>>, <<a, DOT, DQ>>, <<195, 169>>, <<DQ, 195, 169>>, <<195, 169, DOT>>, <<DQ, a, LF>>,
             \* deeper offsets: word-at-a-time or vectorised scans treat the 4th, 8th, 16th, 32nd byte differently
             Rep(a, 3), Rep(a, 7), Rep(a, 8), Rep(a, 15), Rep(a, 17), Rep(a, 33), <<DQ>> \o Rep(a, 6), <<DQ>> \o Rep(a, 15) >>
\* lengths at which 7- and 8-bit counters wrap: structure bytes only, short suffixes
LongAccess == << Rep(a, 127), Rep(a, 128), Rep(a, 255), Rep(a, 256), <<DQ>> \o Rep(a, 254), <<DQ>> \o Rep(a, 255) >>
KeyBytes == {DQ, BS, DOT, SP, CR, LF, a, 40, 64, 127, 128, 195, 255}
LongSfx == << <<>>, <<a>>, <<DQ>>, <<DOT, a>>, <<DQ, a>>, <<a, DQ>> >>
Sfx == << <<>>, <<a>>, <<DQ>>, <<DOT, a>>, <<DQ, a>>, <<BS, DQ>>, <<SP, DQ>>, <<a, DQ>>, <<DQ, DOT, a>>, <<DOT>>, <<LF, SP, DQ>>,
          <<SP, a, DQ>>, <<a, SP, a, DQ>>, Rep(a, 9), Rep(a, 8) \o <<DQ>> >>
Bound == {0, 127, 128, 141, 143, 144, 157, 159, 160, 170, 173, 175, 176, 187, 189, 190, 191, 192, 255}
Second == IF Full THEN 1..255 ELSE Bound \ {0}
Third == IF Full THEN {127, 128, 159, 160, 191, 192} ELSE {127, 128, 191, 192}
Ctx(u, c) == CASE c = 1 -> u [] c = 2 -> <<a>> \o u \o <<a>> [] c = 3 -> <<DQ>> \o u \o <<DQ>> [] c = 4 -> <<DQ, BS>> \o u \o <<DQ>>
               [] c = 5 -> <<a, DOT>> \o u \o <<DOT, a>> [] c = 6 -> u \o <<DQ, a, DQ>>

Init == s = <<>> /\ k = 0
Next == \/ Part = 1 /\ k = 0 /\ \E p \in 1..Len(Access) : s' = <<p>> /\ k' = -1
        \/ Part = 1 /\ k = -1 /\ \E b \in 1..255 : \E x \in 1..Len(Sfx) : s' = Access[s[1]] \o <<b>> \o Sfx[x] /\ k' = 1
        \/ Part = 1 /\ k = 0 /\ \E p \in 1..Len(LongAccess) : s' = <<p>> /\ k' = -2
        \/ Part = 1 /\ k = -2 /\ \E b \in KeyBytes : \E x \in 1..Len(LongSfx) : s' = LongAccess[s[1]] \o <<b>> \o LongSfx[x] /\ k' = 1
        \/ Part = 2 /\ k = 0 /\ \E l \in 128..255 : s' = <<l>> /\ k' = -1
        \/ Part = 2 /\ k = -1 /\ \E c \in 1..6 :
             \/ \E b2 \in 1..255 : s' = Ctx(<<s[1], b2>>, c) /\ k' = 1
             \/ s[1] >= 224 /\ \E b2 \in Second : \E b3 \in Third : s' = Ctx(<<s[1], b2, b3>>, c) /\ k' = 1
             \/ s[1] >= 240 /\ \E b2 \in Second : \E b3 \in Third : \E b4 \in {127, 128, 191, 192} : s' = Ctx(<<s[1], b2, b3, b4>>, c) /\ k' = 1
             \/ s' = Ctx(<<s[1]>>, c) /\ k' = 1

ModeSeq == <<RFC822, RFC5321, RFC5322, RFC6531>>
C12Applies == IsAsciiSeq(s) /\ ~Has(s, DQ) /\ ~Has(s, BS) /\ ~O.rfc20 /\ ~O.f5322
Vec == <<1, OptBits, Len(s)>> \o s \o <<IF C12Applies THEN 1 ELSE 0>> \o
       Concat([j \in 1..4 |-> <<LocalExp(O, ModeSeq[j], s), LocalRc(O, ModeSeq[j], s)>>])
\* the decoder machine agrees with Unicode table 3-7 on every candidate
DecoderOk == MWellFormed(s) = WellFormed(s)
\* EmitCli: the candidate as a line  s@x.com  of a file for the eav tool (see MC_LocalW)
CL == INSTANCE Cli
CliLine == s \o <<AT, 120, DOT, 99, 111, 109>>
CliSafe == ~Has(s, LF) /\ ~Has(s, 0) /\ ~CL!Commented(CliLine \o <<LF>>) /\ CL!Address(CliLine \o <<LF>>) = CliLine
EmitLine == (EmitCli /\ CliSafe) => PrintT(ToJson(<<25, Len(CliLine)>> \o CliLine))
Inv == k = 1 => ((\A m \in Modes : LocalConforms(O, m, s)) /\ DecoderOk /\ PrintT(ToJson(Vec)) /\ EmitLine)
=============================================================================
