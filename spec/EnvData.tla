------------------------------ MODULE EnvData ------------------------------
\* PLACEHOLDER - regenerated at check time by tools/props.py: the pool, and for index
\* ((i-1)*4 + (m-1))*2 + t + 1 the result <<rc, flags, idn>> of the per-mode function (m-th mode of
\* 822, 5321, 5322, 6531; t = tld_check) with the recorded converter answer, and <<rc, flags>> under a converter fault.
EXTENDS EnvPool, Integers
ResSeq == << <<0,4,0>>, <<3,4,0>>, <<0,4,0>>, <<3,4,0>>, <<0,4,0>>, <<3,4,0>>, <<0,4,0>>, <<3,4,0>> >>
ResFaultSeq == << <<0,4>>, <<3,4>>, <<0,4>>, <<3,4>>, <<0,4>>, <<3,4>>, <<-2,0>>, <<-2,0>> >>
=============================================================================
