------------------------------ MODULE IpLiteral ------------------------------
(***************************************************************************)
(* Address literals (C05).                                                  *)
(*  Layer P: a necessary condition N (what may at most be accepted) and a   *)
(*           sufficient condition S (what must be accepted); between them    *)
(*           the property leaves the decision open (first octet zero,        *)
(*           octets written with more than three digits, "::" with seven     *)
(*           groups, untagged IPv6, mixed-case tag).                         *)
(*  Layer M: check_ip (include/eav/private_email.h), is_ipaddr, is_ipv4,     *)
(*           is_ipv6 (src/is_ipv4_ipv6.c, from Postfix) with end-pointer     *)
(*           semantics: term is the byte found at *end.                      *)
(***************************************************************************)
EXTENDS Bytes, Codes, Utf8

TagIPv6 == <<73, 80, 118, 54, 58>>      \* "IPv6:"

----------------------------------------------------------------------------
(* Layer P *)
OctetN(f) == Len(f) >= 1 /\ AllDigits(f) /\ DecVal(f) <= 255
N4(c) == LET f == Split(c, DOT) IN Len(f) = 4 /\ \A i \in 1..4 : OctetN(f[i])
S4(c) == LET f == Split(c, DOT) IN
         N4(c) /\ (\A i \in 1..4 : Len(f[i]) <= 3) /\ DecVal(f[1]) # 0
Hex16(f) == Len(f) \in 1..4 /\ \A i \in 1..Len(f) : IsHex(f[i])

(* shape of an IPv6 text: fields between colons, E = the empty ones, tail = a dotted last field *)
V6Shape(a) ==
  LET f == Split(a, COLON)  n == Len(f)
      E == {i \in 1..n : Len(f[i]) = 0}
      tail == n >= 1 /\ Has(f[n], DOT)
      hexn == Cardinality({i \in 1..n : Len(f[i]) > 0}) - (IF tail THEN 1 ELSE 0)
  IN [f |-> f, n |-> n, E |-> E, tail |-> tail, hexn |-> hexn, G |-> hexn + (IF tail THEN 2 ELSE 0)]

N6(a) ==
  LET sh == V6Shape(a)  f == sh.f  n == sh.n  E == sh.E IN
  /\ n >= 3
  /\ \A i \in (1..n) \ E : Hex16(f[i]) \/ (i = n /\ N4(f[i]))
  /\ \/ E = {} /\ sh.G = 8
     \/ (\E j \in 2..(n-1) : E = {j}) /\ sh.G <= 7
     \/ E = {1, 2} /\ sh.G <= 7
     \/ E = {n-1, n} /\ sh.G <= 7
     \/ (n = 3 /\ E = {1, 2, 3})

(* RFC 5321 4.1.3: IPv6-full, IPv6-comp (<= 6 groups), IPv6v4-full, IPv6v4-comp (<= 4 groups) *)
S6(a) ==
  LET sh == V6Shape(a) IN
  /\ N6(a)
  /\ \/ sh.E = {}
     \/ (~sh.tail /\ sh.G <= 6)
     \/ (sh.tail /\ sh.hexn <= 4)
  /\ (sh.tail => S4(sh.f[sh.n]))

Content(d)  == SubSeq(d, 2, Len(d) - 1)
Bracketed(d) == Len(d) >= 2 /\ d[1] = LBR /\ d[Len(d)] = RBR
LiteralN(d) ==
  /\ Bracketed(d)
  /\ LET c == Content(d) IN
     \/ N4(c)
     \/ N6(c)
     \/ (Len(c) > 5 /\ EqNoCase(Prefix(c, 5), TagIPv6) /\ N6(SubSeq(c, 6, Len(c))))
LiteralS(d) ==
  /\ Bracketed(d)
  /\ LET c == Content(d) IN
     \/ S4(c)
     \/ (Len(c) > 5 /\ SeqEq(Prefix(c, 5), TagIPv6) /\ S6(SubSeq(c, 6, Len(c))))
LiteralExp(d) == IF LiteralS(d) THEN 1 ELSE IF LiteralN(d) THEN 2 ELSE 0
(* family actually present: 4 = IPv4, 6 = IPv6 *)
LiteralFamily(d) == IF Has(d, COLON) THEN 6 ELSE 4

(* the bare public validators is_ipv4 / is_ipv6 on a string *)
V4Exp(c) == IF S4(c) THEN 1 ELSE IF N4(c) THEN 2 ELSE 0
V6Exp(c) == IF S6(c) THEN 1 ELSE IF N6(c) THEN 2 ELSE 0

----------------------------------------------------------------------------
(* Layer M.  YES = 1, NO = 0.  term = the byte at *end (']' inside an address, 0 for a bare string). *)
IRUN == 2
CAt(c, term, i) == IF i \in 1..Len(c) THEN c[i] ELSE IF i = Len(c) + 1 THEN term ELSE 0

V4Init == [inb |-> FALSE, val |-> 0, cnt |-> 0, rc |-> IRUN]
\* start[strspn(start, "0.")] != 0 : something other than '0' and '.' follows inside the C string
NonZeroRest(c, term) == (\E i \in 1..Len(c) : c[i] # ZERO /\ c[i] # DOT) \/ term # 0
V4Step(c, term, st, i) ==
  IF st.rc # IRUN THEN st
  ELSE LET ch == c[i] IN
    IF IsDigit(ch) THEN
      LET v0 == IF st.inb THEN st.val ELSE 0
          v  == v0 * 10 + (ch - 48) IN
      IF v > 255 THEN [st EXCEPT !.rc = 0]
      ELSE [st EXCEPT !.inb = TRUE, !.val = v, !.cnt = IF st.inb THEN @ ELSE @ + 1]
    ELSE IF ch = DOT THEN
      IF ~st.inb \/ i = Len(c) \/ CAt(c, term, i + 1) = 0 THEN [st EXCEPT !.rc = 0]
      ELSE IF st.cnt = 1 /\ st.val = 0 /\ NonZeroRest(c, term) THEN [st EXCEPT !.rc = 0]
      ELSE [st EXCEPT !.inb = FALSE]
    ELSE [st EXCEPT !.rc = 0]
Ipv4Rc(c, term) ==
  LET st == FoldLeft(LAMBDA a, i : V4Step(c, term, a, i), V4Init, Idx(c)) IN
  IF st.rc # IRUN THEN st.rc ELSE IF st.cnt # 4 THEN 0 ELSE 1

V6Init == [field |-> 0, nullf |-> 0, len |-> 0, next |-> 1, rc |-> IRUN]
HexRun(c, i) == \* strspn(cp, hexdigits) from position i (the content is followed by a non-hex byte)
  LET stop == {j \in i..Len(c) : ~IsHex(c[j])} IN
  IF stop = {} THEN Len(c) - i + 1 ELSE (CHOOSE j \in stop : \A k \in stop : j <= k) - i
V6Step(c, term, st, i) ==
  IF st.rc # IRUN \/ i < st.next THEN st
  ELSE LET ch == c[i] IN
    IF ch = DOT THEN
      IF st.field < 2 \/ st.field > 6 \/ (st.nullf = 0 /\ st.field # 6) THEN [st EXCEPT !.rc = 0]
      ELSE [st EXCEPT !.rc = Ipv4Rc(SubSeq(c, i - st.len, Len(c)), term)]
    ELSE IF ch = COLON THEN
      IF st.field = 0 /\ st.len = 0 /\ IsAlnum(CAt(c, term, i + 1)) THEN [st EXCEPT !.rc = 0]
      ELSE IF st.field + 1 > 7 THEN [st EXCEPT !.rc = 0]
      ELSE IF CAt(c, term, i + 1) = COLON THEN
           IF st.nullf > 0 THEN [st EXCEPT !.rc = 0]
           ELSE [st EXCEPT !.field = @ + 1, !.len = 0, !.next = i + 1, !.nullf = st.field + 1]
      ELSE [st EXCEPT !.field = @ + 1, !.len = 0, !.next = i + 1]
    ELSE LET k == HexRun(c, i) IN
      IF k > 4 \/ k <= 0 THEN [st EXCEPT !.rc = 0]
      ELSE [st EXCEPT !.len = k, !.next = i + k]
Ipv6Rc(c, term) ==
  LET st == FoldLeft(LAMBDA a, i : V6Step(c, term, a, i), V6Init, Idx(c)) IN
  IF st.rc # IRUN THEN st.rc
  ELSE IF st.field < 2 THEN 0
  ELSE IF st.len = 0 /\ st.nullf # st.field - 1 THEN 0
  ELSE IF st.nullf = 0 /\ st.field # 7 THEN 0
  ELSE 1
\* is_ipaddr: strchr(start, ':') looks at the whole C string (content, then term and what follows)
IpaddrRc(c, term) == IF Has(c, COLON) \/ term = COLON THEN Ipv6Rc(c, term) ELSE Ipv4Rc(c, term)

(* check_ip on the domain part d (d[1] = '['); result [rc, v4, v6] *)
CheckIp(d) ==
  LET n == Len(d)  bre == LastPos(d, RBR)
      no(code) == [rc |-> 0 - code, v4 |-> FALSE, v6 |-> FALSE] IN
  IF n <= 8 THEN no(E_IPADDR_INVALID)
  ELSE IF bre = 0 THEN no(E_IPADDR_BRACKET_UNPAIR)
  ELSE IF bre # n THEN no(E_IPADDR_INVALID)
  ELSE LET c == SubSeq(d, 2, bre - 1) IN
    IF IsDigit(d[2]) THEN
       IF IpaddrRc(c, RBR) = 0 THEN no(E_IPADDR_INVALID)
       ELSE [rc |-> 0, v4 |-> ~Has(c, COLON), v6 |-> Has(c, COLON)]
    ELSE IF Len(c) >= 5 /\ EqNoCase(Prefix(c, 5), TagIPv6) /\ Ipv6Rc(SubSeq(c, 6, Len(c)), RBR) = 1
         THEN [rc |-> 0, v4 |-> FALSE, v6 |-> TRUE]
         ELSE no(E_IPADDR_INVALID)

ITruth(code, d) ==
  CASE code = E_IPADDR_INVALID        -> ~LiteralS(d)
    [] code = E_IPADDR_BRACKET_UNPAIR -> ~Has(d, RBR)
    [] OTHER -> FALSE

LiteralConforms(d) ==
  LET r == CheckIp(d)  e == LiteralExp(d) IN
  /\ (e = 1 => r.rc = 0) /\ (e = 0 => r.rc < 0)
  /\ (r.rc = 0 => (r.v4 = (LiteralFamily(d) = 4)) /\ (r.v6 = (LiteralFamily(d) = 6)))
  /\ (r.rc < 0 => ~r.v4 /\ ~r.v6 /\ ITruth(0 - r.rc, d))
=============================================================================
