------------------------------ MODULE MC_Local ------------------------------
(* Bounded-exhaustive enumeration of local parts: every string of at most    *)
(* MaxLen chunks over the chosen alphabet is one state.  TLC checks M |= P    *)
(* on each and prints one replay vector per state.                           *)
EXTENDS LocalPart, Json, TLC
CONSTANTS MaxLen, AlphaId, OptBits
VARIABLES s, k

O == [rfc20 |-> (OptBits % 2) = 1, f5322 |-> ((OptBits \div 2) % 2) = 1, us |-> ((OptBits \div 4) % 2) = 1]

\* chunk alphabets (a chunk is a byte sequence)
A1 == { <<97>>, <<DOT>>, <<DQ>>, <<BS>>, <<SP>>, <<HT>>, <<CR>>, <<LF>>, <<1>>, <<DEL>>, <<LPAR>>, <<AT>>, <<HASH>>,
        <<195, 169>>, <<255>> }
A2 == { <<97>>, <<DOT>>, <<DQ>>, <<BS>>, <<SP>>, <<CR>>, <<LF>>, <<1>>, <<HASH>>, <<195, 169>> }
\* UTF-8 structure: ASCII structure characters with 2-, 3- and 4-byte characters and ill-formed pieces
A3 == { <<97>>, <<DOT>>, <<DQ>>, <<BS>>, <<SP>>, <<195, 169>>, <<232, 170, 158>>, <<240, 159, 152, 128>>,
        <<195>>, <<169>>, <<237, 160, 128>>, <<192, 175>> }
\* small structure alphabet for deeper words: atom char, dot, quote, backslash, 2- and 3-byte character, truncated lead
A4 == { <<97>>, <<DOT>>, <<DQ>>, <<BS>>, <<195, 169>>, <<232, 170, 158>>, <<195>> }
\* 5322-style whitespace and controls with non-ASCII (for the RFC6531_FOLLOW_RFC5322 build)
A5 == { <<97>>, <<DOT>>, <<DQ>>, <<BS>>, <<SP>>, <<HT>>, <<CR>>, <<LF>>, <<1>>, <<195, 169>>, <<255>> }
\* the 5322-variant look-ahead of is_6531_local: whitespace followed by non-ASCII / ill-formed bytes
A6 == { <<97>>, <<DQ>>, <<SP>>, <<255>>, <<195, 169>>, <<DOT>>, <<BS>> }
Alphabet == CASE AlphaId = 6 -> A6 [] AlphaId = 1 -> A1 [] AlphaId = 2 -> A2 [] AlphaId = 3 -> A3 [] AlphaId = 4 -> A4 [] AlphaId = 5 -> A5

Init == s = <<>> /\ k = 0
Next == k < MaxLen /\ \E c \in Alphabet : s' = s \o c /\ k' = k + 1

ModeSeq == <<RFC822, RFC5321, RFC5322, RFC6531>>
\* C12: pure-ASCII local part without DQUOTE and backslash (default rules): all four scanners agree
C12Applies == IsAsciiSeq(s) /\ ~Has(s, DQ) /\ ~Has(s, BS) /\ ~O.rfc20 /\ ~O.f5322
Vec == <<1, OptBits, Len(s)>> \o s \o <<IF C12Applies THEN 1 ELSE 0>> \o
       Concat([j \in 1..4 |-> <<LocalExp(O, ModeSeq[j], s), LocalRc(O, ModeSeq[j], s)>>])
Emit == PrintT(ToJson(Vec))

Conforms == \A m \in Modes : LocalConforms(O, m, s)
\* pure-ASCII local parts: 6531 decides exactly as 5321 (C03), or as 5322 when it follows it (C17)
AsciiAgree == IsAsciiSeq(s) /\ ~O.rfc20 =>
                 ((LocalRc(O, RFC6531, s) = 0) <=> (LocalRc(O, QRules(O, RFC6531), s) = 0))
CrossMode == /\ C12Applies => \A m \in Modes : LocalRc(O, m, s) = LocalRc(O, RFC822, s)
             /\ LocalRc(O, RFC5321, s) = 0 => LocalRc(O, RFC822, s) = 0
\* a.X.b accepted for every non-ASCII character X of the alphabet
Inv == Conforms /\ AsciiAgree /\ CrossMode /\ Emit
=============================================================================
