------------------------------- MODULE Bytes -------------------------------
(***************************************************************************)
(* Byte sequences.  Every string libeav sees is modelled as Seq(1..255)    *)
(* (NUL-free byte strings; the terminator is position Len(s)+1).           *)
(* Nothing here uses TLA+ strings.                                         *)
(***************************************************************************)
EXTENDS Integers, Sequences, FiniteSets, SequencesExt

Byte   == 1..255
HT == 9      LF == 10     CR == 13     SP == 32     DQ == 34
HASH == 35   LPAR == 40   DOT == 46    COLON == 58  AT == 64
LBR == 91    BS == 92     RBR == 93    HYPHEN == 45 USCORE == 95
DEL == 127   ZERO == 48

WS        == {SP, HT, CR, LF}
\* RFC 822 specials: ( ) < > @ , ; : \ " . [ ]
Specials  == {40, 41, 60, 62, 64, 44, 59, 58, 92, 34, 46, 91, 93}
\* RFC 20 national-use graphics excluded by RFC6531_FOLLOW_RFC20: # ^ ` { | } ~
Rfc20Set  == {35, 94, 96, 123, 124, 125, 126}

IsDigit(b)  == b \in 48..57
IsUpper(b)  == b \in 65..90
IsLowerc(b) == b \in 97..122
IsAlpha(b)  == IsUpper(b) \/ IsLowerc(b)
IsAlnum(b)  == IsDigit(b) \/ IsAlpha(b)
IsHex(b)    == IsDigit(b) \/ b \in 65..70 \/ b \in 97..102
IsCtl(b)    == b \in 0..31 \/ b = DEL
IsAscii(b)  == b \in 0..127
IsPrint(b)  == b \in 32..126            \* printable ASCII incl. space
IsGraph(b)  == b \in 33..126            \* printable ASCII excl. space
LowerB(b)   == IF IsUpper(b) THEN b + 32 ELSE b
LowerS(s)   == [i \in 1..Len(s) |-> LowerB(s[i])]

Rep(b, n)   == [i \in 1..n |-> b]
Idx(s)      == [i \in 1..Len(s) |-> i]     \* 1..Len(s) as a sequence, for folds

Has(s, b)   == \E i \in 1..Len(s) : s[i] = b
AllIn(s, S) == \A i \in 1..Len(s) : s[i] \in S
AllDigits(s) == \A i \in 1..Len(s) : IsDigit(s[i])

\* positions of a byte
Pos(s, b)   == {i \in 1..Len(s) : s[i] = b}
LastPos(s, b) == IF Pos(s, b) = {} THEN 0 ELSE CHOOSE i \in Pos(s, b) : \A j \in Pos(s, b) : j <= i
FirstPos(s, b) == IF Pos(s, b) = {} THEN 0 ELSE CHOOSE i \in Pos(s, b) : \A j \in Pos(s, b) : j >= i

(* Split(s, sep): the fields of s separated by sep; always at least one     *)
(* field; "a..b" has an empty middle field; "" has one empty field.         *)
Split(s, sep) ==
  FoldLeft(LAMBDA acc, b : IF b = sep THEN Append(acc, <<>>)
                           ELSE [acc EXCEPT ![Len(acc)] = Append(@, b)],
           << <<>> >>, s)

(* decimal value of a digit string; saturates at 1000 so that arbitrarily  *)
(* long digit strings stay inside TLC's 32-bit integers                    *)
DecVal(s) ==
  FoldLeft(LAMBDA v, b : IF v >= 1000 THEN 1000 ELSE v * 10 + (b - 48), 0, s)

Concat(ss) == FoldLeft(LAMBDA acc, x : acc \o x, <<>>, ss)
JoinWith(ss, sep) ==
  IF Len(ss) = 0 THEN <<>>
  ELSE FoldLeft(LAMBDA acc, x : acc \o <<sep>> \o x, ss[1], Tail(ss))

SeqEq(a, b) == Len(a) = Len(b) /\ \A i \in 1..Len(a) : a[i] = b[i]
EqNoCase(a, b) == SeqEq(LowerS(a), LowerS(b))
Suffix(s, n) == SubSeq(s, Len(s) - n + 1, Len(s))
Prefix(s, n) == SubSeq(s, 1, n)
=============================================================================
