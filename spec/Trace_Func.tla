----------------------------- MODULE Trace_Func -----------------------------
(* Direction B for the stateless validators: every event is one call of a    *)
(* public per-part function recorded at its return (input bytes, options,    *)
(* result).  Each event is checked against layer P on its own, so the trace  *)
(* is cut into independent chains that TLC's workers validate in parallel.   *)
(* A rejected event is reported by a line <<"BAD", l, ...>> (l = its line      *)
(* number) so that one pass reports every rejected event; the run is accepted *)
(* only if the number of distinct states equals the number of events.         *)
EXTENDS Email, Json, IOUtils, TLC
VARIABLES l

TraceLog == ndJsonDeserialize(IOEnv.TRACE)
N == Len(TraceLog)
Chunk == 500

OptsOf(ob) == [rfc20 |-> (ob % 2) = 1, f5322 |-> ((ob \div 2) % 2) = 1, us |-> ((ob \div 4) % 2) = 1]

(* each checker returns the set of clauses the event fails (empty = accepted) *)
Fails(name, cond) == IF cond THEN {} ELSE {name}

LocalWhy(ev) ==
  LET o == OptsOf(ev.o)  s == ev.in  m == ev.mode  rc == ev.rc IN
  IF Len(s) <= 160
  THEN LET e == LocalExp(o, m, s) IN
       Fails("range", rc <= 0) \cup
       Fails("decision", (rc = 0 => e # 0) /\ (rc < 0 => e # 1)) \cup
       Fails("truth", rc < 0 => LTruthFull(o, m, 0 - rc, s))
  ELSE \* long inputs: layer P's recursive definition is replaced by the fold machine
       Fails("range", rc <= 0) \cup
       Fails("decision", (rc = 0) = (LocalRc(o, m, s) = 0)) \cup
       Fails("truth", rc < 0 => LTruth(o, m, 0 - rc, s))

HostWhy(ev) ==
  LET o == OptsOf(ev.o)  d == ev.in  rc == ev.rc IN
  Fails("range", rc <= 0) \cup
  Fails("decision", (rc = 0) = IsHostname(o, d)) \cup
  Fails("truth", rc < 0 => HTruthFull(o, 0 - rc, d))

LiteralWhy(ev) ==
  LET d == ev.in  rc == ev.rc  e == LiteralExp(d) IN
  Fails("range", rc <= 0) \cup
  Fails("decision", (rc = 0 => e # 0) /\ (rc < 0 => e # 1)) \cup
  Fails("truth", rc < 0 => ITruth(0 - rc, d))

(* whole-address event: what layer P pins (decision, class, flag), truth of the reported code (C15) and, in   *)
(* mode 6531, the outcome given the converter's recorded answer cc / co (C04 for A-labels, C07, C10, C19)      *)
EmailWhy(ev) ==
  LET o == OptsOf(ev.o)  m == ev.mode  tld == (ev.tld = 1)  s == ev.in  rc == ev.rc  fl == ev.fl
      at == AtPos(s)  n == Len(s)
      split == at >= 1 /\ at < n
      L == IF split THEN LPart(s) ELSE <<>>
      D == IF split THEN DPart(s) ELSE <<>>
      hasconv == "cc" \in DOMAIN ev
      conv == IF hasconv THEN [code |-> ev.cc, out |-> ev.co] ELSE ConvAscii(D)
      Dx == IF m = RFC6531 /\ hasconv /\ conv.code = 0 THEN conv.out ELSE D      \* what the host-name rules see
      code == 0 - rc
      le == IF split /\ Len(L) <= 64 THEN LocalExp(o, m, L) ELSE 0
      p == EmailP(o, m, tld, s)
  IN
  Fails("record", rc <= 9 /\ fl \in {0, 1, 2, 4} /\ (rc >= 0 => fl # 0) /\ (~tld => rc <= 0)) \cup
  Fails("decision", /\ (p.exp = 1 => rc >= 0) /\ (p.exp = 0 => rc < 0)
                    /\ (p.exp = 3 /\ rc # 0 - E_IDN_ERROR => (rc >= 0) = (p.erc = NOPIN \/ p.erc >= 0))) \cup
  Fails("class", p.exp \in {0, 1} /\ p.erc # NOPIN => rc = p.erc) \cup
  Fails("flag", (p.exp \in {0, 1} /\ p.eflag # -1 => fl = p.eflag) /\ (rc = 0 /\ split /\ D[1] # LBR => fl = 4)) \cup
  Fails("truth", rc < 0 =>
        CASE code = E_EMAIL_EMPTY -> n = 0
          [] code = E_DOMAIN_EMPTY -> ~split \/ Len(D) = 0 \/ Len(Dx) = 0        \* (6531: the converted name may be empty)
          [] code = E_LPART_TOO_LONG -> at - 1 > 64
          [] code \in 4..15 -> split /\ LTruthFull(o, m, code, L)
          [] code \in 17..22 -> split /\ D[1] # LBR /\ HTruthFull(o, code, Dx)
          [] code = E_DOMAIN_NOT_FQDN -> split /\ tld /\ ~Has(Body(Dx), DOT) /\ ~IsReserved(Dx)
          [] code \in 24..25 -> split /\ D[1] = LBR /\ ITruth(code, D)
          [] code = E_TLD_INVALID -> split /\ tld /\ TldClassOfLabel(LastLabel(Dx)) < 0
          [] code = E_IDN_ERROR -> m = RFC6531 /\ split /\ D[1] # LBR /\ (hasconv => conv.code # 0 /\ ev.idn = conv.code) /\ fl = 0
          [] OTHER -> FALSE) \cup
  Fails("tldclass", rc > 0 => split /\ tld /\ D[1] # LBR /\ (HasRoot(Dx) \/ rc = TldClassP(Dx))) \cup
  Fails("idn", m = RFC6531 /\ hasconv /\ le = 1 =>
        IF conv.code # 0 THEN rc = 0 - E_IDN_ERROR
        ELSE /\ (rc >= 0) = (IsHostname(o, Dx) /\ (tld /\ ~HasRoot(Dx) => TldClassP(Dx) > 0) /\ (tld /\ HasRoot(Dx) => rc > 0))
             /\ (rc >= 0 /\ tld /\ ~HasRoot(Dx) => rc = TldClassP(Dx)))

Why(ev) ==
  CASE ev.e = "local" -> LocalWhy(ev)
    [] ev.e = "host" -> HostWhy(ev)
    [] ev.e = "literal" -> LiteralWhy(ev)
    [] ev.e = "email" -> EmailWhy(ev)
    [] ev.e \in {"ipv4", "ipv6", "ipaddr", "policy", "hist"} -> {}     \* drift records: nothing is pinned
    [] OTHER -> {"unknown event"}

Init == l \in {i \in 1..N : i % Chunk = 1} \cup (IF N = 0 THEN {0} ELSE {})
Next == l # 0 /\ l < N /\ l % Chunk # 0 /\ l' = l + 1
Ok   == l = 0 \/ Why(TraceLog[l]) = {} \/ PrintT(<<"BAD", l, Why(TraceLog[l])>>)
=============================================================================
