----------------------------- MODULE Trace_Func -----------------------------
(* Direction B for the stateless validators: every event is one call of a    *)
(* public per-part function recorded at its return (input bytes, options,    *)
(* result).  Each event is checked against layer P on its own, so the trace  *)
(* is cut into independent chains that TLC's workers validate in parallel.   *)
(* A rejected event is reported by a line <<"BAD", l, ...>> (l = its line      *)
(* number) so that one pass reports every rejected event; the run is accepted *)
(* only if the number of distinct states equals the number of events.         *)
EXTENDS LocalPart, Json, IOUtils, TLC
VARIABLES l

TraceLog == ndJsonDeserialize(IOEnv.TRACE)
N == Len(TraceLog)
Chunk == 2000

OptsOf(ob) == [rfc20 |-> (ob % 2) = 1, f5322 |-> ((ob \div 2) % 2) = 1, us |-> ((ob \div 4) % 2) = 1]

LocalOk(ev) ==
  LET o == OptsOf(ev.o)  s == ev.in  m == ev.mode  rc == ev.rc IN
  IF Len(s) <= 160
  THEN LET e == LocalExp(o, m, s) IN
       /\ rc <= 0
       /\ (rc = 0 => e # 0)
       /\ (rc < 0 => e # 1 /\ LTruthFull(o, m, 0 - rc, s))
  ELSE \* long inputs: layer P's recursive definition is replaced by the fold machine
       /\ rc <= 0
       /\ (rc = 0) = (LocalRc(o, m, s) = 0)
       /\ (rc < 0 => LTruth(o, m, 0 - rc, s))

EventOk(ev) ==
  CASE ev.e = "local" -> LocalOk(ev)
    [] OTHER -> FALSE

Init == l \in {i \in 1..N : i % Chunk = 1} \cup (IF N = 0 THEN {0} ELSE {})
Next == l # 0 /\ l < N /\ l % Chunk # 0 /\ l' = l + 1
Ok   == l = 0 \/ EventOk(TraceLog[l]) \/ PrintT(<<"BAD", l>>)
=============================================================================
