------------------------------- MODULE Email -------------------------------
(***************************************************************************)
(* Whole addresses: the per-mode functions is_{822,5321,5322,6531}_email     *)
(* (C01, C07, C12, C16).                                                     *)
(*  Layer P: EmailP - what the properties pin about the outcome.            *)
(*  Layer M: EmailM - basic_email_check, local part, then check_ip or the   *)
(*           host-name validator and check_tld, in the order of the code,    *)
(*           producing the result record [rc, v4, v6, dom, idn].             *)
(* The IDN converter is environment: conv = [code, out] is its answer for    *)
(* the domain part (only used in mode 6531 for host-name domains).           *)
(***************************************************************************)
EXTENDS LocalPart, Hostname, IpLiteral, Tld

NOPIN == 99
\* the environment's answer assumed when none was recorded: an all-ASCII host name converts to its lower-case form
ConvAscii(d) == [code |-> 0, out |-> LowerS(d)]

AtPos(s)  == LastPos(s, AT)
LPart(s)  == SubSeq(s, 1, AtPos(s) - 1)
DPart(s)  == SubSeq(s, AtPos(s) + 1, Len(s))

----------------------------------------------------------------------------
(* Layer M *)
Res(rc, v4, v6, dom, idn) == [rc |-> rc, v4 |-> v4, v6 |-> v6, dom |-> dom, idn |-> idn]
Neg(code) == Res(0 - code, FALSE, FALSE, FALSE, 0)

\* is_utf8_domain: converter, is_ascii_domain on the A-label, then special / FQDN / TLD
Utf8DomainRc(o, tld, conv) ==
  IF conv.code # 0 THEN 0 - E_IDN_ERROR
  ELSE LET a == conv.out  rc == HostRc(o, a) IN
       IF rc # 0 THEN rc
       ELSE IF ~tld THEN 0
       ELSE CheckTldRc(a)

EmailM(o, m, tld, conv, s) ==
  LET n == Len(s)  at == AtPos(s) IN
  IF n = 0 THEN Neg(E_EMAIL_EMPTY)
  ELSE IF at = 0 \/ at = n THEN Neg(E_DOMAIN_EMPTY)
  ELSE IF at - 1 > 64 THEN Neg(E_LPART_TOO_LONG)
  ELSE LET L == LPart(s)  D == DPart(s)  rcL == LocalRc(o, m, L) IN
    IF rcL # 0 THEN Res(rcL, FALSE, FALSE, FALSE, 0)
    ELSE IF D[1] = LBR THEN LET r == CheckIp(D) IN Res(r.rc, r.v4, r.v6, FALSE, 0)
    ELSE IF m = RFC6531 THEN
         LET rc == Utf8DomainRc(o, tld, conv) IN Res(rc, FALSE, FALSE, rc >= 0, conv.code)
    ELSE LET rcD == HostRc(o, D) IN
         IF rcD # 0 THEN Res(rcD, FALSE, FALSE, FALSE, 0)
         ELSE IF ~tld THEN Res(0, FALSE, FALSE, TRUE, 0)
         ELSE Res(CheckTldRc(D), FALSE, FALSE, TRUE, 0)

----------------------------------------------------------------------------
(* Layer P.  EmailP = [exp, erc, eflag]:                                      *)
(*   exp   1 accepted (rc >= 0), 0 rejected (rc < 0), 2 not pinned,           *)
(*         3 mode 6531 host name: as exp 1/0 by erc unless the converter      *)
(*           refuses the domain (then IDN error)                              *)
(*   erc   the exact result code where the properties pin it, else NOPIN      *)
(*   eflag 1 is_ipv4, 2 is_ipv6, 4 is_domain, 0 none, -1 not pinned           *)
Pin(exp, erc, eflag) == [exp |-> exp, erc |-> erc, eflag |-> eflag]

HasRoot(d) == Len(d) >= 2 /\ d[Len(d)] = DOT

\* outcome pinned for a syntactically valid host-name domain d (as seen by the ASCII rules)
HostPin(tld, d, envdep) ==
  LET ok == IF envdep THEN 3 ELSE 1 IN
  IF ~tld THEN Pin(ok, 0, 4)
  ELSE IF HasRoot(d) THEN Pin(2, NOPIN, -1)          \* C07/C09 are stated for domains without root dot
  ELSE LET c == TldClassP(d) IN
       IF c > 0 THEN Pin(ok, c, 4) ELSE Pin(IF envdep THEN 3 ELSE 0, c, -1)

EmailP(o, m, tld, s) ==
  LET n == Len(s)  at == AtPos(s) IN
  IF n = 0 \/ at = 0 \/ at = 1 \/ at = n THEN Pin(0, NOPIN, 0)
  ELSE LET L == LPart(s)  D == DPart(s)  le == LocalExp(o, m, L) IN
    IF Len(L) > 64 \/ le = 0 THEN Pin(0, NOPIN, 0)
    ELSE IF D[1] = LBR THEN
         LET de == LiteralExp(D) IN
         IF de = 0 THEN Pin(0, NOPIN, 0)
         ELSE IF de = 1 /\ le = 1 THEN Pin(1, 0, IF LiteralFamily(D) = 4 THEN 1 ELSE 2)
         ELSE Pin(2, NOPIN, -1)
    ELSE IF m # RFC6531 THEN
         IF ~IsHostname(o, D) THEN Pin(0, NOPIN, 0)
         ELSE IF le = 2 THEN Pin(2, NOPIN, -1)
         ELSE HostPin(tld, D, FALSE)
    ELSE \* 6531: the rules are applied to the A-label; for an all-ASCII domain that is its lower-case form
         IF IsAsciiSeq(D) THEN
            IF ~IsHostname(o, D) THEN Pin(0, NOPIN, 0)
            ELSE IF le = 2 THEN Pin(2, NOPIN, -1)
            ELSE HostPin(tld, D, TRUE)
         ELSE Pin(2, NOPIN, -1)

(* M |= P for one (mode, tld, address), with the default environment answer *)
EmailConforms(o, m, tld, s) ==
  LET p == EmailP(o, m, tld, s)
      D == IF AtPos(s) \in 1..(Len(s) - 1) THEN DPart(s) ELSE <<>>
      r == EmailM(o, m, tld, ConvAscii(D), s)
      fl == (IF r.v4 THEN 1 ELSE 0) + (IF r.v6 THEN 2 ELSE 0) + (IF r.dom THEN 4 ELSE 0) IN
  /\ (p.exp \in {1, 3} /\ (p.erc = NOPIN \/ p.erc >= 0) => r.rc >= 0)
  /\ (p.exp = 0 => r.rc < 0)
  /\ (p.exp \in {0, 1, 3} /\ p.erc # NOPIN => r.rc = p.erc)
  /\ (p.exp \in {0, 1, 3} /\ p.eflag # -1 => fl = p.eflag)
  /\ fl \in {0, 1, 2, 4}
  /\ (r.rc >= 0 => fl # 0)

----------------------------------------------------------------------------
(* replay vector of one address: [5, optbits, n, bytes.., at, c12, le for mode in (822, 5321, 5322, 6531) = what layer P
   says of the local part alone (1 valid, 0 invalid, 2 not pinned; 1 when there is none to speak of), then for tld in
   (off, on), for mode in (822, 5321, 5322, 6531): exp, erc, eflag, model rc, model flags] *)
ModeSeq4 == <<RFC822, RFC5321, RFC5322, RFC6531>>
FlagsOf(r) == (IF r.v4 THEN 1 ELSE 0) + (IF r.v6 THEN 2 ELSE 0) + (IF r.dom THEN 4 ELSE 0)
\* C12: pure-ASCII address whose local part has neither DQUOTE nor backslash
C12Addr(o, s) == /\ IsAsciiSeq(s) /\ AtPos(s) > 0 /\ ~Has(LPart(s), DQ) /\ ~Has(LPart(s), BS)
                 /\ ~o.rfc20 /\ ~o.f5322
EmailVec(ob, o, s) ==
  LET D == IF AtPos(s) \in 1..(Len(s) - 1) THEN DPart(s) ELSE <<>>
      one(tld, m) == LET p == EmailP(o, m, tld, s)  r == EmailM(o, m, tld, ConvAscii(D), s) IN
                     <<p.exp, p.erc, p.eflag, r.rc, FlagsOf(r)>>
      le(m) == IF AtPos(s) \in 2..65 THEN LocalExp(o, m, LPart(s)) ELSE 1
  IN <<5, ob, Len(s)>> \o s \o <<AtPos(s), IF C12Addr(o, s) THEN 1 ELSE 0>> \o [j \in 1..4 |-> le(ModeSeq4[j])] \o
     Concat([j \in 1..8 |-> one(j > 4, ModeSeq4[((j - 1) % 4) + 1])])
EmailAllConform(o, s) == \A m \in Modes : \A tld \in BOOLEAN : EmailConforms(o, m, tld, s)
=============================================================================
