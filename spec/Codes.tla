------------------------------- MODULE Codes -------------------------------
(***************************************************************************)
(* Error codes (include/eav.h), TLD classes (include/eav/auto_tld.h) and    *)
(* the allow_tld bits.  Numbers are part of the public ABI.                 *)
(***************************************************************************)
EXTENDS Integers

E_NO_ERROR == 0            E_INVALID_RFC == 1        E_IDN_ERROR == 2
E_EMAIL_EMPTY == 3         E_LPART_EMPTY == 4        E_LPART_TOO_LONG == 5
E_LPART_NOT_ASCII == 6     E_LPART_SPECIAL == 7      E_LPART_CTRL_CHAR == 8
E_LPART_MISPLACED_QUOTE == 9   E_LPART_UNQUOTED == 10    E_LPART_TOO_MANY_DOTS == 11
E_LPART_MISPLACED_DOT == 12    E_LPART_UNQUOTED_FWS == 13  E_LPART_INVALID_FOLDING == 14
E_LPART_INVALID_UTF8 == 15     E_DOMAIN_EMPTY == 16      E_DOMAIN_LABEL_TOO_LONG == 17
E_DOMAIN_MISPLACED_HYPHEN == 18  E_DOMAIN_MISPLACED_DELIMITER == 19
E_DOMAIN_INVALID_CHAR == 20    E_DOMAIN_TOO_LONG == 21   E_DOMAIN_NUMERIC == 22
E_DOMAIN_NOT_FQDN == 23        E_IPADDR_INVALID == 24    E_IPADDR_BRACKET_UNPAIR == 25
E_TLD_INVALID == 26            E_TLD_NOT_ASSIGNED == 27  E_TLD_COUNTRY_CODE == 28
E_TLD_GENERIC == 29            E_TLD_GENERIC_RESTRICTED == 30
E_TLD_INFRASTRUCTURE == 31     E_TLD_SPONSORED == 32     E_TLD_TEST == 33
E_TLD_SPECIAL == 34            E_TLD_RETIRED == 35       E_MAX == 36

LpartCodes  == 4..15
DomainCodes == 16..23
IpCodes     == 24..25
TldCodes    == 26..35

T_NOT_ASSIGNED == 1   T_COUNTRY_CODE == 2   T_GENERIC == 3   T_GENERIC_RESTRICTED == 4
T_INFRASTRUCTURE == 5 T_SPONSORED == 6      T_TEST == 7      T_SPECIAL == 8
T_RETIRED == 9
TldClasses == 1..9

\* allow_tld bit index of a class: EAV_TLD_x = 1 << (class + 1)
ClassBit(c)  == c + 1
\* error code recorded for a class that the mask refuses
ClassErr(c)  == 26 + c
AllowBits    == 0..10
DefaultAllow == {3, 4, 5, 6, 7, 9}   \* cc, generic, generic-restricted, infrastructure, sponsored, special

RFC822 == 822   RFC5321 == 5321   RFC5322 == 5322   RFC6531 == 6531
AsciiModes == {RFC822, RFC5321, RFC5322}
Modes      == AsciiModes \cup {RFC6531}
\* value of the EAV_RFC enum
ModeOfEnum(v) == CASE v = 0 -> RFC822 [] v = 1 -> RFC5321 [] v = 2 -> RFC5322 [] v = 3 -> RFC6531 [] OTHER -> 0
EnumOfMode(m) == CASE m = RFC822 -> 0 [] m = RFC5321 -> 1 [] m = RFC5322 -> 2 [] m = RFC6531 -> 3

\* message family keyword of an error code (src/eav.c errors[]): what the text must talk about
MsgFamily(e) == CASE e = 0 -> "none" [] e = 1 -> "rfc" [] e = 2 -> "idn" [] e = 3 -> "email"
              [] e \in LpartCodes -> "local-part" [] e \in DomainCodes -> "domain"
              [] e \in IpCodes -> "ip-addr" [] e \in TldCodes -> "tld" [] OTHER -> "?"
=============================================================================
