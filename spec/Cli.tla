--------------------------------- MODULE Cli ---------------------------------
(***************************************************************************)
(* The eav command-line tool (bin/main.c, bin/main.h), C20.                 *)
(* A file is a byte sequence (0..255, NUL allowed).  The tool reads it       *)
(* with getline: a line is everything up to and including the next LF, the   *)
(* last line may lack it.  Per line, in the order of the code:               *)
(*   StripTerm  - CR LF or LF at the end removed                             *)
(*   CStr       - the buffer is then used as a C string (stops at a NUL)     *)
(*   IsComment  - first byte '#': the line produces no output                *)
(*   TrimLead   - exactly one leading SP dropped                             *)
(*   TrimTrail  - exactly one trailing SP / HT dropped, if anything is left  *)
(*   verdict    - the library's decision under default settings on the rest  *)
(*   echo       - the rest, unchanged, when it is well-formed UTF-8 without   *)
(*                control characters; not pinned otherwise (the tool writes  *)
(*                control characters as 0x%02x: EchoOf, kept as model only)  *)
(***************************************************************************)
EXTENDS Bytes, Utf8

RECURSIVE SplitLines(_, _, _)
\* getline: lines keep their LF
SplitLines(f, i, cur) ==
  IF i > Len(f) THEN (IF cur = <<>> THEN <<>> ELSE <<cur>>)
  ELSE IF f[i] = LF THEN <<Append(cur, LF)>> \o SplitLines(f, i + 1, <<>>)
  ELSE SplitLines(f, i + 1, Append(cur, f[i]))
LinesOf(f) == SplitLines(f, 1, <<>>)

StripTerm(raw) ==
  LET n == Len(raw) IN
  IF n >= 2 /\ raw[n-1] = CR /\ raw[n] = LF THEN SubSeq(raw, 1, n - 2)
  ELSE IF n >= 1 /\ raw[n] = LF THEN SubSeq(raw, 1, n - 1)
  ELSE raw
CStr(s) == LET z == {i \in 1..Len(s) : s[i] = 0} IN
           IF z = {} THEN s ELSE SubSeq(s, 1, (CHOOSE i \in z : \A j \in z : i <= j) - 1)
IsComment(s) == Len(s) >= 1 /\ s[1] = HASH
TrimLead(s)  == IF Len(s) >= 1 /\ s[1] = SP THEN Tail(s) ELSE s
TrimTrail(s) == IF Len(s) >= 1 /\ s[Len(s)] \in {SP, HT} THEN SubSeq(s, 1, Len(s) - 1) ELSE s
\* what the tool hands to eav_is_email for a raw line (a non-comment one)
Address(raw) == TrimTrail(TrimLead(CStr(StripTerm(raw))))
Commented(raw) == IsComment(CStr(StripTerm(raw)))

HexDigit(v) == IF v < 10 THEN 48 + v ELSE 87 + v
Escape(b) == <<48, 120, HexDigit(b \div 16), HexDigit(b % 16)>>
EchoOf(a) == IF \A i \in 1..Len(a) : ~IsCtl(a[i]) THEN a ELSE Concat([i \in 1..Len(a) |-> IF IsCtl(a[i]) THEN Escape(a[i]) ELSE <<a[i]>>])
\* the property pins the echo only for well-formed lines without control characters (echoed unchanged); how control
\* characters or undecodable bytes are shown is the tool's business
\* (C1 controls U+0080..U+009F, bytes C2 80..9F, count as control characters too: not pinned)
EchoPinned(a) == /\ WellFormed(a) /\ \A i \in 1..Len(a) : ~IsCtl(a[i])
                 /\ ~\E i \in 1..(Len(a) - 1) : a[i] = 194 /\ a[i+1] \in 128..159

(* eav FILE1 FILE2 ...: main walks argv from the last file name to the first, reading every file with the same object  *)
(* and the same static scratch buffers; the output is the concatenation of the files' outputs in that order.           *)
ProcessingOrder(n) == [i \in 1..n |-> n + 1 - i]
=============================================================================
